"""Process set-up shared by every check: interpreter re-exec with a fixed hash seed, repository selection,
deterministic third-party settings.  Importing this module (first) guarantees that `import xgi` resolves to the
working tree under VERIF_REPO (default /repo)."""
import os
import sys

VERIF_DIR = os.path.dirname(os.path.dirname(os.path.abspath(__file__)))
REPO = os.path.abspath(os.environ.get("VERIF_REPO", "/repo"))


def ensure_hashseed():
    """Re-exec once with PYTHONHASHSEED=0 so string hashing (set order of string labels) is reproducible."""
    if os.environ.get("PYTHONHASHSEED") != "0":
        env = dict(os.environ)
        env["PYTHONHASHSEED"] = "0"
        os.execve(sys.executable, [sys.executable] + sys.argv, env)


def setup():
    os.environ.setdefault("MPLBACKEND", "Agg")
    os.environ.setdefault("OMP_NUM_THREADS", "1")
    os.environ.setdefault("OPENBLAS_NUM_THREADS", "1")
    os.environ.setdefault("MKL_NUM_THREADS", "1")
    if sys.path[0] != REPO:
        sys.path.insert(0, REPO)
    import warnings

    warnings.filterwarnings("ignore", category=DeprecationWarning)
    import xgi  # noqa

    f = os.path.abspath(xgi.__file__)
    if not f.startswith(REPO + os.sep):
        print(f"HARNESS-ERROR: xgi imported from {f}, expected under {REPO}", file=sys.stderr)
        sys.exit(2)
    return xgi


def seed():
    try:
        return int(os.environ.get("VERIF_SEED", "0"))
    except ValueError:
        return 0


def nproc():
    try:
        n = int(os.environ.get("VERIF_NPROC", "0"))
    except ValueError:
        n = 0
    if n > 0:
        return n
    return max(1, min(16, os.cpu_count() or 1))
