"""Operation alphabets: small closed drivers for the three classes (DESIGN.md section 5).

An operation is a Python expression over the name `H` (the object under test).  IDs are forced to collide: node
labels {1,2,3}, explicit edge IDs {0,2,'e'}, one missing ID (9), None.  Alphabets are ordered simplest-first.
State-dependent menus (swaps, shuffles, member removals) are generators obj -> [expr].
"""
import itertools

from . import choice as CH

# ---------------------------------------------------------------------------------------------------------------
# helpers bound into the evaluation namespace of every spec


def _shuffle(H, choices, *args):
    """H.random_edge_shuffle(*args) with the random source owned by the harness (replays `choices`)."""
    ch = CH.Chooser(choices)
    with CH.own_rng(ch):
        return H.random_edge_shuffle(*args)


def shuffle_menu(H, e_args=()):
    """All complete choice sequences of random_edge_shuffle on the current state (explored on fresh copies is not
    possible without trusting copy(); instead we explore on a structural clone built from public observations)."""
    import xgi

    def run(ch):
        G = xgi.Hypergraph()
        G.add_nodes_from(list(H.nodes))
        for e, m in H.edges.members(dtype=dict).items():
            G.add_edge(sorted(m, key=repr), idx=e)
        with CH.own_rng(ch):
            try:
                G.random_edge_shuffle(*e_args)
            except Exception:  # noqa: BLE001
                pass
        return None

    seqs = []
    try:
        for trace, _ in CH.explore(run, max_execs=400):
            seqs.append([c for _, c, _ in trace])
    except CH.TooManyChoices:
        pass
    return seqs


def _aliased(f, m):
    """Call f with the caller-owned mutable object m, then mutate m the way a caller legitimately may.  If the
    network kept a reference to m instead of copying it, the later mutation corrupts the network (and the
    incidence / refinement monitors see it)."""
    r = f(m)
    if isinstance(m, set):
        m.add(3)
        m.discard(1)
    elif isinstance(m, list):
        m.append(3)
    elif isinstance(m, dict):
        m["MUT"] = 1
    return r


# labels of other *types* than int: a tuple, a string, a proper float; IDs: a tuple, a string, a numpy integer
TA, SB, FC = (0, "t"), "b", 2.5
ET, ES = (1, "e"), "x"


def _np3():
    import numpy as np

    return np.int64(3)


def _np127():
    import numpy as np

    return np.int8(127)  # the largest value of its fixed-width type: idx + 1 wraps around in that type


EF, EB = frozenset({"f"}), b"y"  # hashable IDs that are neither numbers nor strings
NAN = float("nan")  # one shared object: found again by identity

def _become(H, X):
    """Continue the history on X (a copy, an unpickled twin, a network built from H): H takes over X's complete instance
    state.  On a tree where such twins are faithful the state does not change and the search does not branch; where a twin
    differs in anything - the next automatic ID included - every later operation of the history runs on the difference."""
    if type(X) is not type(H):
        raise TypeError(f"become: {type(X).__name__} cannot replace {type(H).__name__}")
    H.__dict__ = X.__dict__


def _repickle(H):
    import pickle

    return pickle.loads(pickle.dumps(H))


NAMESPACE = {"become": _become, "repickle": _repickle, "shuffle": _shuffle, "aliased": _aliased, "TA": TA, "SB": SB, "FC": FC, "ET": ET, "ES": ES, "NP3": _np3(),
             "EF": EF, "EB": EB, "NAN": NAN, "NP127": _np127(), "BIGF": 1e16}


def namespace():
    return dict(NAMESPACE)


def subsets(u, lo=0, hi=None):
    hi = len(u) if hi is None else hi
    for k in range(lo, hi + 1):
        for c in itertools.combinations(u, k):
            yield list(c)


# ---------------------------------------------------------------------------------------------------------------
# Hypergraph


def hypergraph_static(level="full"):
    ops = []
    A = ops.append
    # nodes
    for n in (1, 2, 3):
        A(f"H.add_node({n})")
    A("H.add_node(1, color='r')")
    A("H.add_nodes_from([1, 2])")
    A("H.add_nodes_from([(3, {'c': 1}), 2], c=0)")
    # single edges, automatic ids
    for s in subsets([1, 2, 3]):
        A(f"H.add_edge({s})")
    A("H.add_edge([1, 2], idx=0)")
    A("H.add_edge([2, 3], idx=2)")
    A("H.add_edge([1, 3], idx='e')")
    A("H.add_edge([2, 3], idx=0, w=1)")
    A("H.add_edge([1, 2, 3], idx=5, w=2)")
    A("H.add_edge([2, 3], idx=2.0)")  # equal to 2 as a key, but not an int
    A("H.add_edge([1], idx=-1)")
    # bulk, five formats
    A("H.add_edges_from([[1, 2], [2, 3]])")
    A("H.add_edges_from([[1], [1, 2, 3]])")
    A("H.add_edges_from([[1, 2], [1, 2]])")
    A("H.add_edges_from([[3, 1, 2], [2, 1]])")
    A("H.add_edge([3, 1])")
    A("H.add_edges_from([([1, 2], 0), ([2, 3], 2)])")
    A("H.add_edges_from([([1, 2], 2), ([1, 3], 0)])")
    A("H.add_edges_from([([1, 2], 'e'), ([2, 3], 'e')])")
    A("H.add_edges_from([([1, 2], {'w': 1}), ([3], {'w': 2})])")
    A("H.add_edges_from([([1, 2], 2, {'w': 1}), ([2, 3], 0, {})])")
    A("H.add_edges_from({0: [1, 2], 2: [2, 3]})")
    A("H.add_edges_from({'e': [1, 3]})")
    A("H.add_edges_from({5: [1, 2, 3], 1: [2]})")
    A("H.add_edges_from({0: {1, 2}, 'e': {2, 3}})")
    # member collections of other types than list / set: frozenset, tuple, range, dict key view, numpy array
    A("H.add_edge(frozenset({1, 2}))")
    A("H.add_edge((3, 1), idx=5)")
    A("H.add_edges_from({5: frozenset({1, 2}), 'e': frozenset({2, 3})})")
    A("H.add_edges_from([frozenset({1, 2}), frozenset({3})])")
    A("H.add_edges_from([(frozenset({2, 3}), 2)])")
    A("H.add_edges_from({5: (1, 2, 3), 1: range(1, 3)})")
    A("H.add_edges_from([range(1, 4), {1: 0, 3: 0}.keys()])")
    # caller-owned containers must be copied, not aliased (same object twice; object mutated by the caller later)
    A("aliased(lambda m: H.add_edges_from({'a': m, 'b': m}), {1, 2})")
    A("aliased(lambda m: H.add_edges_from({5: m}), {1, 2})")
    A("aliased(lambda m: H.add_edges_from([m, [2, 3]]), {1, 2})")
    A("aliased(lambda m: H.add_edges_from([(m, 7)]), [1, 2])")
    A("aliased(lambda m: H.add_edge(m), {1, 2})")
    A("aliased(lambda d: H.add_edges_from([([1, 2], d)]), {'w': 1})")
    A("aliased(lambda d: H.set_edge_attributes({0: d}), {'w': 5})")
    A("H.add_edges_from([[1, 2]], c='x')")
    A("H.add_edges_from({2: [1, 2]}, c='x')")
    A("H.add_edges_from([([1, 3], 1, {'c': 'y'})], c='x')")
    A("H.add_weighted_edges_from([(1, 2, 0.5), (2, 3, 2.0)])")
    # membership edits
    for e in (0, 2, "e"):
        for n in (1, 3):
            A(f"H.add_node_to_edge({e!r}, {n})")
    A("H.add_node_to_edge(5, 1)")
    # removals
    for n in (1, 2, 3):
        A(f"H.remove_node({n})")
        A(f"H.remove_node({n}, strong=True)")
        A(f"H.remove_node({n}, remove_empty=False)")
    A("H.remove_nodes_from([1, 2])")
    A("H.remove_nodes_from([3, 9])")
    A("H.remove_nodes_from([2], strong=True)")
    A("H.remove_nodes_from([1, 3], remove_empty=False)")
    for e in (0, 1, 2, "e"):
        A(f"H.remove_edge({e!r})")
    A("H.remove_edges_from([0, 1])")
    A("H.remove_edges_from([2, 'e'])")
    # global edits
    A("H.clear()")
    A("H.clear(remove_net_attr=False)")
    A("H.clear_edges()")
    for rename in ("first", "tuple", "new"):
        for rule in ("first", "union", "intersection"):
            A(f"H.merge_duplicate_edges(rename={rename!r}, merge_rule={rule!r})")
    A("H.merge_duplicate_edges(multiplicity='m')")
    A("H.update(edges=[[1, 2]], nodes=[3])")
    A("H.update(nodes=[1])")
    # attributes
    A("H.set_node_attributes({1: {'c': 1}, 9: {'c': 2}})")
    A("H.set_node_attributes(5, name='x')")
    A("H.set_edge_attributes({0: {'w': 2}, 9: {'w': 3}})")
    A("H.set_edge_attributes(1.5, name='w')")
    A("H.set_edge_attributes({0: 7}, name='w')")
    A("H.set_edge_attributes({0: 0, 1: 0.0, 2: 0, 'e': -1}, name='w')")  # falsy and negative weights
    # unknown IDs at every position of the mapping (documented: ignored / warned about, the known ones are still set)
    A("H.set_edge_attributes({9: 7, 0: 8, 2: 9}, name='w')")
    A("H.set_edge_attributes({0: 8, 9: 7, 2: 9}, name='w')")
    A("H.set_edge_attributes({9: {'w': 3}, 0: {'w': 2}, 2: {'v': 1}})")
    A("H.set_node_attributes({9: 7, 1: 8, 3: 9}, name='c')")
    A("H.set_node_attributes({9: {'c': 2}, 1: {'c': 1}, 3: {'d': 0}})")
    A("H.__setitem__('name', 'x')")
    # attribute names that are not strings (any hashable is accepted): nothing may pass them on as keyword arguments
    A("H.__setitem__(2024, 'x')")
    A("H.add_nodes_from([(1, {0: 'z', (1, 2): 3}), 2])")
    A("H.set_edge_attributes({0: {7: 1}, 2: {(1, 2): 0}})")
    # the network's own views and accessor results as arguments (filtered views, member / membership sets)
    A("H.remove_edges_from(H.edges.singletons())")
    A("H.remove_edges_from(H.edges.filterby('size', 2))")
    A("H.remove_nodes_from(H.nodes.filterby('degree', 1))")
    A("H.remove_nodes_from(H.nodes.isolates())")
    A("H.add_edges_from(H.edges.members())")
    A("H.add_edges_from(H.edges.members(dtype=dict))")
    A("H.add_edge(H.nodes)")
    A("H.add_edge(H.edges.members(0))")
    A("H.remove_nodes_from(H.edges.members(0))")
    A("H.remove_edges_from(H.nodes.memberships(2))")
    A("H.remove_edges_from(H.edges.duplicates())")
    # the history continues on a twin / a derived network of the same class
    A("become(H, H.copy())")
    A("become(H, repickle(H))")
    A("become(H, xgi.Hypergraph(H))")
    A("become(H, H.cleanup(isolates=True, singletons=True, multiedges=True, relabel=False, in_place=False))")
    A("become(H, xgi.subhypergraph(H, nodes=[1, 2, 3]).copy())")
    A("become(H, xgi.convert_labels_to_integers(H, in_place=False))")
    # in-place library helpers
    A("H.cleanup()")
    A("H.cleanup(relabel=False)")
    A("H.cleanup(isolates=True, singletons=True, multiedges=True, relabel=True)")
    A("H.cleanup(isolates=True, singletons=False, multiedges=True, relabel=False)")
    A("H.cleanup(multiedges=True, connected=True, relabel=False)")
    A("H.cleanup(connected=True)")
    A("xgi.convert_labels_to_integers(H, in_place=True)")
    A("xgi.convert_labels_to_integers(H, label_attribute='old', in_place=True)")
    A("xgi.largest_connected_hypergraph(H, in_place=True)")
    return ops


def hypergraph_exotic():
    """The same edit vocabulary over labels of other types (names bound in NAMESPACE).  Members are given as sets or
    as lists of non-iterable / all-string labels wherever a list of tuple labels would be read as a positional bulk
    format (DESIGN.md 9.2)."""
    ops = []
    A = ops.append
    for n in ("TA", "SB", "FC"):
        A(f"H.add_node({n})")
        A(f"H.remove_node({n})")
        A(f"H.remove_node({n}, strong=True)")
        A(f"H.remove_node({n}, remove_empty=False)")
    A("H.add_nodes_from([TA, FC])")
    A("H.add_nodes_from([(TA, {'c': 1}), SB])")
    for m in ("[TA]", "[TA, SB]", "{SB, FC}", "[TA, SB, FC]", "(FC, TA)"):
        A(f"H.add_edge({m})")
    A("H.add_edge([TA, SB], idx=ET)")
    A("H.add_edge([SB, FC], idx=ES)")
    A("H.add_edge([TA, FC], idx=0)")
    A("H.add_edge([TA, FC], idx=NP3)")
    A("H.add_edge([FC], idx=3)")
    A("H.add_edge([TA, SB], idx=EF)")
    A("H.add_edge([SB], idx=EB)")
    A("H.add_edge([TA, FC], idx=NP127)")  # integer IDs at the edge of their numeric type
    A("H.add_edge([SB, FC], idx=BIGF)")
    A("H.add_edges_from({NP127: [TA], BIGF: [SB]})")
    A("H.add_edges_from({6: np.array([1, 2]), 7: np.array(['b', 'c'])})")  # members from arrays: numpy scalars as labels
    # falsy labels and IDs: node 0 and '', edge IDs '' and () (anything testing truth instead of presence goes wrong)
    A("H.add_node(0)")
    A("H.add_node('')")
    A("H.add_edge([0, SB])")
    A("H.add_edge([0, ''], idx='')")
    A("H.add_edge([TA], idx=())")
    A("H.add_edges_from({'': [0], (): [SB, 0]})")
    A("H.add_node_to_edge('', 0)")
    A("H.add_node_to_edge((), '')")
    A("H.remove_node(0)")
    A("H.remove_node('')")
    A("H.remove_edge('')")
    A("H.remove_edge(())")
    A("H.remove_node_from_edge('', 0)")
    A("H.set_edge_attributes({'': {'w': 0}, (): {'w': 0.0}})")
    A("H.set_node_attributes({0: {'c': 0}, '': {'c': None}})")
    A("H.add_edges_from({EF: [TA], EB: [SB, FC]})")
    A("H.add_edges_from([({TA, SB}, EF), ({FC}, EB)])")
    A("H.add_node_to_edge(EF, FC)")
    A("H.remove_edge(EF)")
    A("H.add_edges_from([{TA, SB}, {SB, FC}])")
    A("H.add_edges_from([{TA}, {TA, SB, FC}])")
    A("H.add_edges_from([[SB, 'c'], [SB]])")
    A("H.add_edges_from([[FC, SB], [FC]])")
    A("H.add_edges_from({ET: [TA, SB], ES: [FC]})")
    A("H.add_edges_from({0: {TA, FC}, NP3: {SB}})")
    A("H.add_edges_from([({TA, SB}, ES), ({FC}, ET)])")
    A("H.add_edges_from([({TA, SB}, {'w': 1}), ({FC, TA}, {'w': 2})])")
    A("H.add_edges_from([({TA, SB}, ET, {'w': 1}), ({SB}, NP3, {})])")
    A("aliased(lambda m: H.add_edges_from({ET: m}), {TA, SB})")
    for e in ("ET", "ES", "0", "NP3"):
        A(f"H.remove_edge({e})")
        A(f"H.add_node_to_edge({e}, FC)")
        A(f"H.add_node_to_edge({e}, TA)")
    A("H.remove_edges_from([ET, 0])")
    A("H.remove_nodes_from([TA, FC])")
    A("H.clear_edges()")
    A("H.merge_duplicate_edges()")
    A("H.merge_duplicate_edges(rename='tuple', merge_rule='union')")
    A("H.merge_duplicate_edges(rename='new')")
    A("H.set_node_attributes({TA: {'c': 1}, SB: {'c': 2}})")
    A("H.set_edge_attributes({ET: {'w': 2}, 0: {'w': 3}})")
    A("H.cleanup()")
    A("H.cleanup(relabel=False)")
    A("H.cleanup(isolates=True, singletons=True, multiedges=True, relabel=False)")
    A("xgi.convert_labels_to_integers(H, label_attribute='old', in_place=True)")
    return ops


def dihypergraph_exotic():
    ops = []
    A = ops.append
    for n in ("TA", "SB", "FC"):
        A(f"H.add_node({n})")
        A(f"H.remove_node({n})")
        A(f"H.remove_node({n}, strong=True)")
        A(f"H.remove_node({n}, remove_empty=False)")
    A("H.add_nodes_from([TA, FC])")
    for t, h in (("[TA]", "[SB]"), ("{TA, SB}", "{FC}"), ("[FC]", "[TA, SB]"), ("[TA, SB]", "[SB, FC]"), ("[SB]", "[SB]"),
                 ("[FC]", "[]"), ("[]", "[TA]")):
        A(f"H.add_edge(({t}, {h}))")
    A("H.add_edge(([TA], [SB]), idx=ET)")
    A("H.add_edge(([SB, FC], [TA]), idx=ES)")
    A("H.add_edge(([TA], [FC]), idx=0)")
    A("H.add_edge(([FC], [TA]), idx=NP3)")
    A("H.add_edge(([FC], [SB]), idx=3)")
    A("H.add_edge(([TA], [SB]), idx=EF)")
    A("H.add_edge(([TA], [FC]), idx=NP127)")
    A("H.add_edge(([SB], [FC]), idx=BIGF)")
    A("H.add_node(0)")
    A("H.add_node('')")
    A("H.add_edge(([0], [SB, '']))")
    A("H.add_edge(([0], ['']), idx='')")
    A("H.add_edge(([TA], [0]), idx=())")
    A("H.add_edges_from({'': ([0], []), (): ([SB], [0])})")
    A("H.add_node_to_edge('', 0, 'out')")
    A("H.add_node_to_edge((), '', 'in')")
    A("H.remove_node(0)")
    A("H.remove_node('')")
    A("H.remove_edge('')")
    A("H.remove_edge(())")
    A("H.remove_node_from_edge('', 0, 'in')")
    A("H.add_edges_from({EF: ([TA], [FC]), EB: ([SB], [])})")
    A("H.add_edges_from([(([TA], [SB]), ES), (([SB], [TA]), EB)])")
    A("H.add_node_to_edge(EF, FC, 'in')")
    A("H.remove_edge(EF)")
    A("H.add_edges_from([([TA], [SB]), ({SB, FC}, {TA})])")
    A("H.add_edges_from([(([TA], [SB]), ES), (([FC], [TA]), ET)])")
    A("H.add_edges_from([(([TA], [SB]), {'w': 1})])")
    A("H.add_edges_from([(([TA], [SB]), ET, {'w': 1}), (([SB], []), NP3, {})])")
    A("H.add_edges_from({ET: ([TA], [SB]), ES: ([SB, FC], [TA])})")
    A("H.add_edges_from({0: ({TA}, {FC}), NP3: ([SB], [])})")
    for e in ("ET", "ES", "0", "NP3"):
        A(f"H.remove_edge({e})")
        A(f"H.add_node_to_edge({e}, FC, 'in')")
        A(f"H.add_node_to_edge({e}, TA, 'out')")
    A("H.remove_edges_from([ET, 0])")
    A("H.remove_nodes_from([TA, FC])")
    A("H.set_edge_attributes({ET: {'w': 2}, 0: {'w': 3}})")
    A("H.cleanup()")
    A("H.cleanup(relabel=False)")
    return ops


def simplicial_exotic():
    ops = []
    A = ops.append
    for n in ("TA", "SB", "FC"):
        A(f"H.add_node({n})")
        A(f"H.remove_node({n})")
    A("H.add_nodes_from([TA, FC])")
    for m in ("[TA]", "[TA, SB]", "{SB, FC}", "[TA, SB, FC]", "(FC, TA)"):
        A(f"H.add_simplex({m})")
    A("H.add_simplex([TA, SB], idx=ET)")
    A("H.add_simplex([SB, FC], idx=ES)")
    A("H.add_simplex([TA, SB, FC], idx=0)")
    A("H.add_simplex([TA, FC], idx=NP3)")
    A("H.add_simplex([FC, SB], idx=3)")
    A("H.add_simplex([TA, SB], idx=EF)")
    A("H.add_simplex([TA, FC], idx=NP127)")
    A("H.add_simplex([SB, FC, TA], idx=BIGF)")
    A("H.add_node(0)")
    A("H.add_node('')")
    A("H.add_simplex([0, SB])")
    A("H.add_simplex([0, '', SB], idx='')")
    A("H.add_simplex([TA, 0], idx=())")
    A("H.add_simplices_from({'': [0, SB], (): [SB, 0, '']})")
    A("H.remove_node(0)")
    A("H.remove_node('')")
    A("H.remove_simplex_id('')")
    A("H.remove_simplex_id(())")
    A("H.add_simplices_from({EF: [TA, FC], EB: [SB, FC, TA]})")
    A("H.add_simplices_from([({TA, SB}, EB)])")
    A("H.remove_simplex_id(EF)")
    A("H.add_simplices_from([{TA, SB}, {SB, FC}])")
    A("H.add_simplices_from([{TA, SB, FC}])")
    A("H.add_simplices_from([{TA, SB, FC}], max_order=1)")
    A("H.add_simplices_from([[SB, 'c', 'd'], [SB]])")
    A("H.add_simplices_from({ET: [TA, SB], ES: [FC, SB, TA]})")
    A("H.add_simplices_from({ET: {TA, SB, FC}}, max_order=1)")
    A("H.add_simplices_from([({TA, SB}, ES), ({FC, TA, SB}, ET)])")
    A("H.add_simplices_from([({TA, SB}, {'w': 1})])")
    A("H.add_simplices_from([({TA, SB, FC}, ET, {'w': 1}), ({SB}, NP3, {})])")
    for e in ("ET", "ES", "0", "NP3", "1"):
        A(f"H.remove_simplex_id({e})")
    A("H.remove_simplex_ids_from([ET, 0])")
    A("H.remove_nodes_from([TA, FC])")
    A("H.close()")
    A("H.set_edge_attributes({ET: {'w': 2}, 0: {'w': 3}})")
    A("H.cleanup()")
    A("H.cleanup(relabel=False)")
    return ops


def hypergraph_deviant():
    return [
        "H.add_node(None)",
        "H.add_nodes_from([2, None])",
        "H.add_edge([3, None])",
        "H.add_edge([1, [2]])",
        "H.add_edge([1, 2], idx=None)",
        "H.add_edge(5)",
        "H.add_edges_from([[3, None]])",
        "H.add_edges_from([[1, 2], [3, None]])",
        "H.add_edges_from({5: [3, None]})",
        "H.add_edges_from({None: [1, 2]})",
        "H.add_edges_from([([1, 2], None)])",
        "H.add_edges_from([([3, None], 7)])",
        "H.add_edges_from([([1, 3], {'w': 1}), ([3, None], {'w': 2})])",
        "H.add_edges_from([([2, None], 7, {'w': 1})])",
        # an attribute entry that is not a mapping (the call may fail, the tables must stay paired)
        "H.add_edges_from([([1, 2], 7, None)])",
        "H.add_edges_from([([1, 3], 7, 5), ([2, 3], 8, {})])",
        "H.add_edges_from([([1, 2], 7, {'w': 1}), ([2, 3], 8, 'ab')])",
        "H.add_edges_from([([1, 2], 7, [1])])",
        "H.add_edges_from(['ab'])",
        "H.add_edges_from([[1, [2]]])",
        "H.add_edges_from([[]])",
        "H.add_edges_from(5)",
        # one-shot iterators as member collections
        "H.add_edge(iter([1, 2]))",
        "H.add_edges_from([iter([1, 2])])",
        "H.add_edges_from([[1, 2], iter([2, 3])])",
        "H.add_edges_from([(iter([1, 3]), 7)])",
        "H.add_edges_from({5: iter([1, 2])})",
        "H.add_node_to_edge(None, 1)",
        "H.add_node_to_edge(0, None)",
        "H.remove_node(9)",
        "H.remove_node(None)",
        "H.remove_edge(9)",
        "H.remove_edges_from([0, 9])",
        "H.remove_edges_from([0, 0])",
        "H.remove_edges_from([9, 0])",
        "H.remove_node_from_edge(9, 1)",
        "H.remove_node_from_edge(0, 9)",
        "H.double_edge_swap(1, 2, 0, 9)",
        "H.double_edge_swap(9, 2, 0, 1)",
        "H.random_edge_shuffle(0, 9)",
        "H.merge_duplicate_edges(rename='bad')",
        "H.merge_duplicate_edges(merge_rule='bad')",
        "H.set_node_attributes(3)",
        "H.set_edge_attributes(3)",
    ]


def gen_member_removals(H):
    out = []
    try:
        mem = H.edges.members(dtype=dict)
    except Exception:  # noqa: BLE001
        return out
    for e, m in list(mem.items())[:4]:
        for n in sorted(m, key=repr)[:3]:
            out.append(f"H.remove_node_from_edge({e!r}, {n!r})")
            out.append(f"H.remove_node_from_edge({e!r}, {n!r}, remove_empty=False)")
        for n in list(H.nodes)[:3]:
            if n not in m:
                out.append(f"H.remove_node_from_edge({e!r}, {n!r})")
                break
    return out


def gen_swaps(H):
    out = []
    try:
        mem = H.edges.members(dtype=dict)
    except Exception:  # noqa: BLE001
        return out
    es = list(mem)[:4]
    for e1, e2 in itertools.permutations(es, 2):
        for n1 in sorted(mem[e1], key=repr)[:3]:
            for n2 in sorted(mem[e2], key=repr)[:3]:
                out.append(f"H.double_edge_swap({n1!r}, {n2!r}, {e1!r}, {e2!r})")
    for e in es[:2]:
        for n in sorted(mem[e], key=repr)[:2]:
            out.append(f"H.double_edge_swap({n!r}, {n!r}, {e!r}, {e!r})")
    return out[:40]


def gen_shuffles(H):
    out = []
    try:
        es = list(H.edges)
    except Exception:  # noqa: BLE001
        return out
    if len(es) < 2:
        return ["shuffle(H, [])"]
    if len(es) <= 3:
        for seq in shuffle_menu(H):
            out.append(f"shuffle(H, {seq})")
    e1, e2 = es[0], es[1]
    for seq in shuffle_menu(H, (e1, e2)):
        out.append(f"shuffle(H, {seq}, {e1!r}, {e2!r})")
    return out[:60]


# ---------------------------------------------------------------------------------------------------------------
# DiHypergraph


def dihypergraph_static():
    ops = []
    A = ops.append
    for n in (1, 2, 3):
        A(f"H.add_node({n})")
    A("H.add_node(1, color='r')")
    A("H.add_nodes_from([1, 2])")
    A("H.add_nodes_from([(3, {'c': 1}), 2], c=0)")
    pairs = [([1], [2]), ([1, 2], [3]), ([1], [2, 3]), ([1, 2], [2, 3]), ([2], [2]), ([3], []), ([], [1]), ([], []),
             ([1, 2, 3], [1])]
    for t, h in pairs:
        A(f"H.add_edge(({t}, {h}))")
    A("H.add_edge(([1], [2]), idx=0)")
    A("H.add_edge(([2, 3], [1]), idx=2)")
    A("H.add_edge(([1, 3], [3]), idx='e')")
    A("H.add_edge(([2], [3]), idx=0, w=1)")
    A("H.add_edge([[1, 2], [3]], idx=5, w=2)")
    A("H.add_edge(([2], [3]), idx=2.0)")
    A("H.add_edges_from([([1], [2]), ([2, 3], [1])])")
    A("H.add_edges_from([([1], [1]), ([1], [1])])")
    A("H.add_edges_from([(([1], [2]), 0), (([2, 3], [1]), 2)])")
    A("H.add_edges_from([(([1], [2]), 2), (([1], [3]), 0)])")
    A("H.add_edges_from([(([1], [2]), 'e'), (([2], [3]), 'e')])")
    A("H.add_edges_from([(([1], [2]), {'w': 1}), (([3], []), {'w': 2})])")
    A("H.add_edges_from([(([1], [2]), 2, {'w': 1}), (([2], [3]), 0, {})])")
    A("H.add_edges_from({0: ([1], [2]), 2: ([2, 3], [1])})")
    A("H.add_edges_from({'e': ([1, 3], [2])})")
    A("H.add_edges_from({5: ([1], [2, 3]), 1: ([2], [])})")
    # tail / head collections of other types than list / set
    A("H.add_edge((frozenset({1}), frozenset({2, 3})))")
    A("H.add_edges_from({5: (frozenset({1, 2}), (3,)), 'e': ((2,), frozenset())})")
    A("H.add_edges_from([(frozenset({1}), frozenset({2})), ((3,), range(1, 3))])")
    A("H.add_edges_from([((frozenset({2}), frozenset({3, 1})), 2)])")
    A("aliased(lambda m: H.add_edges_from({5: (m, [2])}), {1})")
    A("aliased(lambda m: H.add_edges_from({'a': (m, [3]), 'b': ([3], m)}), {1, 2})")
    A("aliased(lambda m: H.add_edges_from([(m, {3})]), {1, 2})")
    A("aliased(lambda m: H.add_edge(([3], m)), {1, 2})")
    A("H.add_edges_from([([1], [2])], c='x')")
    A("H.add_edges_from({2: ([1], [2])}, c='x')")
    A("H.add_edges_from([(([1], [3]), 1, {'c': 'y'})], c='x')")
    for e in (0, 2, "e"):
        for n in (1, 3):
            A(f"H.add_node_to_edge({e!r}, {n}, 'in')")
            A(f"H.add_node_to_edge({e!r}, {n}, 'out')")
    A("H.add_node_to_edge(5, 1, 'in')")
    for n in (1, 2, 3):
        A(f"H.remove_node({n})")
        A(f"H.remove_node({n}, strong=True)")
        A(f"H.remove_node({n}, remove_empty=False)")
    A("H.remove_nodes_from([1, 2])")
    A("H.remove_nodes_from([3, 9])")
    A("H.remove_nodes_from([2], strong=True)")
    A("H.remove_nodes_from([1, 3], remove_empty=False)")
    for e in (0, 1, 2, "e"):
        A(f"H.remove_edge({e!r})")
    A("H.remove_edges_from([0, 1])")
    A("H.remove_edges_from([2, 'e'])")
    A("H.clear()")
    A("H.clear(remove_net_attr=False)")
    A("H.set_node_attributes({1: {'c': 1}, 9: {'c': 2}})")
    A("H.set_node_attributes(5, name='x')")
    A("H.set_edge_attributes({0: {'w': 2}, 9: {'w': 3}})")
    A("H.set_edge_attributes(1.5, name='w')")
    A("H.set_edge_attributes({0: 0, 1: 0.0, 2: 0, 'e': -1}, name='w')")  # falsy and negative weights
    # unknown IDs at every position of the mapping (documented: ignored / warned about, the known ones are still set)
    A("H.set_edge_attributes({9: 7, 0: 8, 2: 9}, name='w')")
    A("H.set_edge_attributes({0: 8, 9: 7, 2: 9}, name='w')")
    A("H.set_edge_attributes({9: {'w': 3}, 0: {'w': 2}, 2: {'v': 1}})")
    A("H.set_node_attributes({9: 7, 1: 8, 3: 9}, name='c')")
    A("H.set_node_attributes({9: {'c': 2}, 1: {'c': 1}, 3: {'d': 0}})")
    A("H.__setitem__('name', 'x')")
    # attribute names that are not strings (any hashable is accepted): nothing may pass them on as keyword arguments
    A("H.__setitem__(2024, 'x')")
    A("H.add_nodes_from([(1, {0: 'z', (1, 2): 3}), 2])")
    A("H.set_edge_attributes({0: {7: 1}, 2: {(1, 2): 0}})")
    # the history continues on a twin / a derived network of the same class
    A("become(H, H.copy())")
    A("become(H, repickle(H))")
    A("become(H, xgi.DiHypergraph(H))")
    A("become(H, H.cleanup(relabel=False, in_place=False))")
    A("become(H, xgi.convert_labels_to_integers(H, in_place=False))")
    A("H.cleanup()")
    A("H.cleanup(relabel=False)")
    A("H.cleanup(isolates=True)")
    A("H.cleanup(isolates=True, relabel=False)")
    A("xgi.convert_labels_to_integers(H, in_place=True)")
    return ops


def dihypergraph_deviant():
    return [
        "H.add_node(None)",
        "H.add_nodes_from([2, None])",
        "H.add_edge(([3, None], [1]))",
        "H.add_edge(([1], [3, None]))",
        "H.add_edge(([1], [[2]]))",
        "H.add_edge({1, 2})",
        "H.add_edge(([1], [2], [3]))",
        "H.add_edge(([1], [2]), idx=None)",
        "H.add_edges_from([([3, None], [1])])",
        "H.add_edges_from([([1], [2]), ([1], [3, None])])",
        "H.add_edges_from({5: ([3, None], [1])})",
        "H.add_edges_from({5: ([2], [3, None])})",
        "H.add_edges_from({None: ([1], [2])})",
        "H.add_edges_from([(([1], [None]), 7)])",
        "H.add_edges_from([(([1], [2]), {'w': 1}), (([None], [2]), {'w': 2})])",
        "H.add_edges_from([(([2], [None]), 7, {'w': 1})])",
        # an attribute entry that is not a mapping (the call may fail, the tables must stay paired)
        "H.add_edges_from([(([1], [2]), 7, None)])",
        "H.add_edges_from([(([1], [3]), 7, 5), (([2], [3]), 8, {})])",
        "H.add_edges_from([(([1], [2]), 7, {'w': 1}), (([2], [3]), 8, 'ab')])",
        "H.add_edges_from([(([1], [2]), 7, [1])])",
        "H.add_edge((iter([1]), iter([2, 3])))",
        "H.add_edges_from([(iter([1]), iter([2, 3]))])",
        "H.add_edges_from({5: (iter([1]), iter([2]))})",
        "H.add_edges_from([((iter([1, 2]), iter([3])), 7)])",
        "H.add_edges_from([{1, 2}])",
        "H.add_edges_from([([1], [[2]])])",
        "H.add_edges_from(5)",
        "H.add_node_to_edge(None, 1, 'in')",
        "H.add_node_to_edge(0, None, 'out')",
        "H.add_node_to_edge(0, 1, 'sideways')",
        "H.add_node_to_edge(7, 1, 'sideways')",
        "H.remove_node(9)",
        "H.remove_edge(9)",
        "H.remove_edges_from([0, 9])",
        "H.remove_edges_from([0, 0])",
        "H.remove_node_from_edge(9, 1, 'in')",
        "H.remove_node_from_edge(0, 9, 'out')",
        "H.remove_node_from_edge(0, 1, 'sideways')",
    ]


def gen_dimember_removals(H):
    out = []
    try:
        mem = H.edges.dimembers(dtype=dict)
    except Exception:  # noqa: BLE001
        return out
    for e, (t, h) in list(mem.items())[:4]:
        for n in sorted(t, key=repr)[:2]:
            out.append(f"H.remove_node_from_edge({e!r}, {n!r}, 'in')")
            out.append(f"H.remove_node_from_edge({e!r}, {n!r}, 'in', remove_empty=False)")
        for n in sorted(h, key=repr)[:2]:
            out.append(f"H.remove_node_from_edge({e!r}, {n!r}, 'out')")
            out.append(f"H.remove_node_from_edge({e!r}, {n!r}, 'out', remove_empty=False)")
        for n in sorted(set(t) - set(h), key=repr)[:1]:
            out.append(f"H.remove_node_from_edge({e!r}, {n!r}, 'out')")
        for n in sorted(set(h) - set(t), key=repr)[:1]:
            out.append(f"H.remove_node_from_edge({e!r}, {n!r}, 'in')")
    return out


# ---------------------------------------------------------------------------------------------------------------
# SimplicialComplex


def simplicial_static():
    ops = []
    A = ops.append
    for n in (1, 2):
        A(f"H.add_node({n})")
    A("H.add_nodes_from([(3, {'c': 1}), 4], c=0)")
    for s in subsets([1, 2, 3, 4], 1):
        A(f"H.add_simplex({s})")
    A("H.add_simplex([1, 2, 3, 4, 5])")
    A("H.add_simplex([1, 2], idx=0)")
    A("H.add_simplex([2, 3, 4], idx=2)")
    A("H.add_simplex([1, 3], idx='e', w=1)")
    A("H.add_simplex([1, 2, 3], idx=0, w=2)")
    A("H.add_simplex([3, 4], idx=3.0)")
    for mo in (None, 0, 1, 2):
        kw = "" if mo is None else f", max_order={mo}"
        A(f"H.add_simplices_from([[1, 2, 3], [2, 3, 4]]{kw})")
        A(f"H.add_simplices_from([[1, 2, 3, 4]]{kw})")
        A(f"H.add_simplices_from([([1, 2, 3], 2), ([3, 4], 0)]{kw})")
        A(f"H.add_simplices_from([([1, 2, 3, 4], {{'w': 1}}), ([1, 2], {{'w': 2}})]{kw})")
        A(f"H.add_simplices_from([([2, 3, 4], 2, {{'w': 1}}), ([1, 2, 3, 4], 'e', {{}})]{kw})")
        A(f"H.add_simplices_from({{0: [1, 2, 3], 5: [1, 2, 3, 4]}}{kw})")
    A("H.add_simplices_from([[1, 2, 3, 4, 5]], max_order=2)")
    A("H.add_simplices_from([[1, 2, 3, 4, 5]], max_order=1)")
    # overlapping simplices whose shared faces are written in different member orders
    A("H.add_simplices_from({'a': [1, 2, 3], 'b': [4, 3, 2]})")
    A("H.add_simplices_from([[1, 2, 3], [4, 3, 2]])")
    A("H.add_simplices_from([([3, 1, 2], 7), ([2, 1, 4], 3)], max_order=1)")
    A("H.add_simplices_from({6: [4, 3, 2, 1], 1: [1, 3, 4]}, max_order=2)")
    # explicit integer IDs out of order (or followed by a non-integer ID), with enough generated faces for the automatic
    # IDs to reach the larger explicit ID
    A("H.add_simplices_from({5: [1, 2, 3], 2: [3, 4, 5]})")
    A("H.add_simplices_from({4: [1, 2, 3], 'e': [2, 3, 4]})")
    A("H.add_simplices_from([([1, 2, 3], 5), ([3, 4, 5], 2)])")
    A("H.add_simplices_from([([1, 2, 3], 4, {}), ([2, 3, 4], 'e', {'w': 1})])")
    A("H.add_simplex([3, 2, 1])")
    # member collections of other types
    A("H.add_simplex(frozenset({1, 2, 3}))")
    A("H.add_simplices_from({5: frozenset({1, 2, 4}), 'e': (2, 3)})")
    A("H.add_simplices_from([frozenset({1, 2}), range(2, 5)])")
    A("aliased(lambda m: H.add_simplices_from({'a': m, 'b': [2, 4]}), {1, 2, 4})")
    A("aliased(lambda m: H.add_simplices_from([m, [3, 4]]), [1, 2])")
    A("aliased(lambda m: H.add_simplex(m), {1, 2})")
    A("H.add_simplex([4, 2], idx=9)")
    A("H.add_simplices_from([[1, 2], [1, 2], [2, 1]])")
    A("H.add_simplices_from([[1, 2, 3]], c='x')")
    A("H.add_simplices_from({2: [1, 2]}, c='x')")
    A("H.add_weighted_simplices_from([(1, 2, 0.5), (2, 3, 4, 2.0)])")
    A("H.add_weighted_simplices_from([(1, 2, 3, 4, 0.5)], max_order=1)")
    A("H.add_edge([1, 2, 3])")
    A("H.add_edges_from([[1, 4], [2, 3, 4]])")
    A("H.add_weighted_edges_from([(1, 3, 4, 1.0)])")
    for n in (1, 2, 3, 4):
        A(f"H.remove_node({n})")
    A("H.remove_nodes_from([1, 2])")
    A("H.remove_nodes_from([3, 9])")
    A("H.close()")
    A("H.clear()")
    # the history continues on a twin / a derived network of the same class
    A("become(H, H.copy())")
    A("become(H, repickle(H))")
    A("become(H, xgi.SimplicialComplex(H))")
    A("become(H, H.cleanup(relabel=False, in_place=False))")
    A("become(H, xgi.convert_labels_to_integers(H, in_place=False))")
    A("H.cleanup()")
    A("H.cleanup(relabel=False)")
    A("H.cleanup(isolates=True, connected=False)")
    A("H.cleanup(isolates=True, connected=False, relabel=False)")
    A("H.set_node_attributes({1: {'c': 1}})")
    A("H.set_edge_attributes(1.5, name='w')")
    A("H.set_edge_attributes({0: 0, 1: 0.0, 2: 0, 'e': -1}, name='w')")  # falsy and negative weights
    # unknown IDs at every position of the mapping (documented: ignored / warned about, the known ones are still set)
    A("H.set_edge_attributes({9: 7, 0: 8, 2: 9}, name='w')")
    A("H.set_edge_attributes({0: 8, 9: 7, 2: 9}, name='w')")
    A("H.set_edge_attributes({9: {'w': 3}, 0: {'w': 2}, 2: {'v': 1}})")
    A("H.set_node_attributes({9: 7, 1: 8, 3: 9}, name='c')")
    A("H.set_node_attributes({9: {'c': 2}, 1: {'c': 1}, 3: {'d': 0}})")
    A("H.__setitem__('name', 'x')")
    # attribute names that are not strings (any hashable is accepted): nothing may pass them on as keyword arguments
    A("H.__setitem__(2024, 'x')")
    A("H.add_nodes_from([(1, {0: 'z', (1, 2): 3}), 2])")
    A("H.set_edge_attributes({0: {7: 1}, 2: {(1, 2): 0}})")
    return ops


def simplicial_deviant():
    return [
        "H.add_simplex([])",
        "H.add_simplex([3, None])",
        "H.add_simplex([1, [2]])",
        # an attribute entry that is not a mapping (the call may fail, the tables must stay paired)
        "H.add_simplices_from([([1, 2, 3], 7, None)])",
        "H.add_simplices_from([([1, 3], 7, 5), ([2, 3], 8, {})])",
        "H.add_simplices_from([([1, 2], 7, {'w': 1}), ([2, 3, 4], 8, 'ab')])",
        "H.add_simplices_from([([1, 2], 7, [1])])",
        "H.add_simplex(5)",
        "H.add_simplices_from([[]])",
        "H.add_simplices_from([[1, 2], []])",
        "H.add_simplices_from([[3, None]])",
        "H.add_simplices_from([[1, 2], [3, None]])",
        "H.add_simplices_from({5: [3, None]})",
        "H.add_simplices_from({5: []})",
        "H.add_simplices_from([([3, None], 7)])",
        "H.add_simplices_from([([1, 2, None], 7)], max_order=1)",
        "H.add_simplices_from([[1, 2, None]], max_order=0)",
        "H.add_simplices_from(['ab'])",
        "H.add_simplices_from(5)",
        "H.add_simplex(iter([1, 2, 3]))",
        "H.add_simplices_from([iter([1, 2, 3])])",
        "H.add_simplices_from([[1, 2], iter([2, 3, 4])])",
        "H.add_simplices_from({5: iter([1, 2, 3])})",
        "H.add_simplices_from([(iter([1, 2, 3]), 7)], max_order=1)",
        "H.add_node(None)",
        "H.remove_node(9)",
        "H.remove_simplex_id(9)",
        "H.remove_simplex_ids_from([0, 9])",
        "H.remove_edge(9)",
        "H.add_node_to_edge(0, 1)",
    ]


def gen_simplex_removals(H):
    out = []
    try:
        es = list(H.edges)
    except Exception:  # noqa: BLE001
        return out
    for e in es[:8]:
        out.append(f"H.remove_simplex_id({e!r})")
    if len(es) >= 2:
        out.append(f"H.remove_simplex_ids_from([{es[0]!r}, {es[1]!r}])")
        out.append(f"H.remove_simplex_ids_from([{es[-1]!r}, {es[0]!r}])")
        out.append(f"H.remove_edges_from([{es[1]!r}, {es[-1]!r}])")
    if es:
        out.append(f"H.remove_edge({es[-1]!r})")
    return out


# ---------------------------------------------------------------------------------------------------------------
# trimmed alphabets (one representative per structurally distinct operation) for deeper searches


def hypergraph_trim():
    return [
        "H.add_node(1)", "H.add_node(3)", "H.add_edge([])", "H.add_edge([1])", "H.add_edge([1, 2])", "H.add_edge([2, 3])",
        "H.add_edge([1, 2, 3])", "H.add_edge([1, 2], idx=0)", "H.add_edge([2, 3], idx=2)", "H.add_edge([1, 3], idx='e')",
        "H.add_edges_from([[1, 2], [2, 3]])", "H.add_edges_from([([1, 2], 2), ([1, 3], 0)])",
        "H.add_edges_from([([1, 2], {'w': 1}), ([3], {'w': 2})])", "H.add_edges_from({0: [1, 2], 2: [2, 3]})",
        "H.add_edges_from({5: [1, 2, 3], 1: [2]})", "H.add_node_to_edge(0, 3)", "H.add_node_to_edge('e', 1)",
        "H.add_node_to_edge(5, 1)", "H.remove_node(1)", "H.remove_node(2, strong=True)", "H.remove_node(3, remove_empty=False)",
        "H.remove_nodes_from([1, 3], remove_empty=False)", "H.remove_edge(0)", "H.remove_edge(1)", "H.remove_edge('e')",
        "H.remove_edges_from([0, 1])", "H.clear_edges()", "H.clear()", "H.merge_duplicate_edges()",
        "H.merge_duplicate_edges(rename='new', merge_rule='union')", "H.merge_duplicate_edges(rename='tuple', merge_rule='intersection')",
        "H.update(edges=[[1, 2]], nodes=[3])", "H.set_edge_attributes(1.5, name='w')", "H.cleanup()", "H.cleanup(relabel=False)",
        "H.cleanup(multiedges=True, connected=True, relabel=False)", "xgi.convert_labels_to_integers(H, in_place=True)",
        "xgi.largest_connected_hypergraph(H, in_place=True)",
        # deviant
        "H.add_edge([3, None])", "H.add_edges_from([[1, 2], [3, None]])", "H.add_edges_from({5: [3, None]})",
        "H.remove_edges_from([0, 9])", "H.remove_edges_from([0, 0])", "H.add_node_to_edge(0, None)", "H.add_edges_from([[]])",
    ]


def dihypergraph_trim():
    return [
        "H.add_node(1)", "H.add_node(3)", "H.add_edge(([1], [2]))", "H.add_edge(([1, 2], [2, 3]))", "H.add_edge(([3], []))",
        "H.add_edge(([], []))", "H.add_edge(([1], [2]), idx=0)", "H.add_edge(([2, 3], [1]), idx=2)", "H.add_edge(([1, 3], [3]), idx='e')",
        "H.add_edges_from([([1], [2]), ([2, 3], [1])])", "H.add_edges_from([(([1], [2]), 2), (([1], [3]), 0)])",
        "H.add_edges_from([(([1], [2]), {'w': 1}), (([3], []), {'w': 2})])", "H.add_edges_from({0: ([1], [2]), 2: ([2, 3], [1])})",
        "H.add_node_to_edge(0, 3, 'in')", "H.add_node_to_edge(0, 3, 'out')", "H.add_node_to_edge(5, 1, 'in')",
        "H.add_node_to_edge('e', 1, 'out')", "H.remove_node(1)", "H.remove_node(2, strong=True)",
        "H.remove_node(3, remove_empty=False)", "H.remove_nodes_from([1, 3], remove_empty=False)", "H.remove_edge(0)",
        "H.remove_edge(1)", "H.remove_edges_from([0, 1])", "H.clear()", "H.set_edge_attributes(1.5, name='w')", "H.cleanup()",
        "H.cleanup(isolates=True, relabel=False)", "xgi.convert_labels_to_integers(H, in_place=True)",
        "H.add_edge(([3, None], [1]))", "H.add_edge(([1], [[2]]))", "H.add_edges_from([([1], [2]), ([1], [3, None])])",
        "H.add_edges_from({5: ([2], [3, None])})", "H.remove_edges_from([0, 9])", "H.add_node_to_edge(0, None, 'out')",
        "H.add_node_to_edge(7, 1, 'sideways')",
    ]


def simplicial_trim():
    return [
        "H.add_node(1)", "H.add_simplex([1])", "H.add_simplex([1, 2])", "H.add_simplex([2, 3])", "H.add_simplex([1, 2, 3])",
        "H.add_simplex([2, 3, 4])", "H.add_simplex([1, 2, 3, 4])", "H.add_simplex([1, 2], idx=0)", "H.add_simplex([2, 3, 4], idx=2)",
        "H.add_simplex([1, 3], idx='e', w=1)", "H.add_simplices_from([[1, 2, 3], [2, 3, 4]])",
        "H.add_simplices_from([[1, 2, 3, 4]], max_order=1)", "H.add_simplices_from([([1, 2, 3], 2), ([3, 4], 0)])",
        "H.add_simplices_from([([1, 2, 3, 4], {'w': 1}), ([1, 2], {'w': 2})], max_order=2)",
        "H.add_simplices_from({0: [1, 2, 3], 5: [1, 2, 3, 4]})", "H.add_simplices_from({0: [1, 2, 3], 5: [1, 2, 3, 4]}, max_order=1)",
        "H.add_simplices_from([[1, 2, 3, 4, 5]], max_order=2)", "H.add_weighted_simplices_from([(1, 2, 0.5), (2, 3, 4, 2.0)])",
        "H.add_edge([1, 2, 3])", "H.add_edges_from([[1, 4], [2, 3, 4]])", "H.remove_node(1)", "H.remove_node(3)",
        "H.remove_nodes_from([1, 2])", "H.close()", "H.clear()", "H.cleanup()", "H.cleanup(isolates=True, connected=False, relabel=False)",
        "H.add_simplex([])", "H.add_simplex([3, None])", "H.add_simplices_from([[1, 2], [3, None]])",
        "H.add_simplices_from([([1, 2, None], 7)], max_order=1)", "H.add_simplices_from({5: [3, None]})", "H.remove_simplex_id(9)",
        "H.remove_simplex_ids_from([0, 9])",
    ]
