"""Reference models (C05): executable transcriptions of the documentation of the three classes, in plain dicts of
sets.  Kept boring.  They leave implementation choices open:

* an automatically assigned ID is "some fresh integer": a model method records *pending automatic additions*; the
  comparison adopts whatever fresh IDs the implementation picked (by order for hypergraphs, by member set for
  complexes) and only checks freshness / integrality;
* after a call the model classifies as erroneous, only the exception family is judged (the post-error state is
  C01-C03's business);
* inputs whose treatment the documentation does not define return UNSPEC: nothing is judged.

Every public method returns a `Res`.
"""
import collections
import copy
import itertools
from collections.abc import Iterator


def _mat(x):
    """one-shot iterators given as member collections are read once"""
    return list(x) if isinstance(x, Iterator) else x


_SHAPES = (list, set, frozenset, tuple, Iterator)


class Res:
    __slots__ = ("kind", "warn", "autos", "why")

    def __init__(self, kind, warn=False, autos=None, why=""):
        self.kind = kind  # "ok" | "err" (library error required) | "anyerr" (some exception required) | "unspec"
        self.warn = warn  # True: the implementation must emit a warning
        self.autos = autos or []
        self.why = why


OK = lambda warn=False, autos=None: Res("ok", warn, autos)  # noqa: E731
ERR = lambda why="": Res("err", why=why)  # noqa: E731
ANYERR = lambda why="": Res("anyerr", why=why)  # noqa: E731
UNSPEC = lambda why="": Res("unspec", why=why)  # noqa: E731


def _hashable(x):
    try:
        hash(x)
        return True
    except TypeError:
        return False


class _Base:
    def __init__(self):
        self.node = {}  # node -> attr dict
        self.edge = collections.OrderedDict()  # id -> members (set) or (tail set, head set)
        self.eattr = {}
        self.net = {}

    # -- node operations common to all classes
    def add_node(self, node, **attr):
        if node is None:
            return ERR("None as node ID")
        if not _hashable(node):
            return UNSPEC()
        self.node.setdefault(node, {}).update(attr)
        return OK()

    def add_nodes_from(self, nodes_for_adding, **attr):
        try:
            items = list(nodes_for_adding)
        except TypeError:
            return UNSPEC()
        for it in items:
            if _hashable(it):
                n, d = it, {}
                if isinstance(it, tuple) and len(it) == 2 and isinstance(it[1], dict):
                    n, d = it
            else:
                try:
                    n, d = it
                except (TypeError, ValueError):
                    return UNSPEC()
            if n is None:
                return ERR("None as node ID")
            a = self.node.setdefault(n, {})
            a.update(attr)
            a.update(d)
        return OK()

    def set_node_attributes(self, values, name=None):
        return self._set_attrs(self.node, values, name)

    def set_edge_attributes(self, values, name=None):
        return self._set_attrs(self.eattr, values, name)

    @staticmethod
    def _set_attrs(table, values, name):
        warn = False
        if name is not None:
            if isinstance(values, dict):
                for k, v in values.items():
                    if k in table:
                        table[k][name] = v
                    else:
                        warn = True
            else:
                for k in table:
                    table[k][name] = values
        else:
            if not isinstance(values, dict):
                return ERR("dict of dicts required")
            for k, d in values.items():
                if not isinstance(d, dict):
                    return UNSPEC()
                if k in table:
                    table[k].update(d)
                else:
                    warn = True
        return OK(warn)

    def __setitem__(self, k, v):
        self.net[k] = v
        return OK()

    def clear(self, remove_net_attr=True):
        self.node.clear()
        self.edge.clear()
        self.eattr.clear()
        if remove_net_attr:
            self.net.clear()
        return OK()

    def _classify_bulk(self, el):
        """Format of one element of a bulk call, by the shape conventions of the alphabets (DESIGN.md 5 C05: the
        model is told the format, the implementation has to detect it): records are tuples whose first item is
        the member collection."""
        raise NotImplementedError


# ---------------------------------------------------------------------------------------------------------------


class RefHypergraph(_Base):
    directed = False

    def load(self, snap):
        self.node = {n: copy.deepcopy(snap["nattr"][n]) for n in snap["nodes"]}
        self.edge = collections.OrderedDict((e, set(snap["members"][e])) for e in snap["edges"])
        self.eattr = {e: copy.deepcopy(snap["eattr"][e]) for e in snap["edges"]}
        self.net = copy.deepcopy(snap["net"])
        return self

    def snap(self):
        return {"nodes": list(self.node), "edges": list(self.edge),
                "members": {e: frozenset(m) for e, m in self.edge.items()},
                "nattr": self.node, "eattr": self.eattr, "net": self.net}

    def _put(self, eid, members, attr):
        self.edge[eid] = set(members)
        self.eattr[eid] = dict(attr)
        for n in members:
            self.node.setdefault(n, {})

    @staticmethod
    def _members(m):
        if isinstance(m, str):
            return None
        try:
            m = list(m)
        except TypeError:
            return None
        if not all(_hashable(x) for x in m):
            return None
        return m

    def add_edge(self, members, idx=None, **attr):
        m = self._members(members) if not isinstance(members, str) else list(members)
        if m is None:
            return UNSPEC("members not an iterable of hashables")
        if None in m:
            if idx is not None and _hashable(idx) and idx in self.edge:
                return UNSPEC("existing ID and invalid member")
            return ERR("None as member")
        if idx is not None and not _hashable(idx):
            return UNSPEC()
        if idx is not None and idx in self.edge:
            return OK(warn=True)
        if idx is None:
            return OK(autos=[(m, dict(attr))])
        self._put(idx, m, attr)
        return OK()

    def add_edges_from(self, ebunch_to_add, **attr):
        autos = []
        warn = False
        if isinstance(ebunch_to_add, dict):
            recs = [(_mat(m), i, {}) for i, m in ebunch_to_add.items()]
            explicit = True
        else:
            try:
                items = list(ebunch_to_add)
            except TypeError:
                return UNSPEC()
            recs = []
            explicit = None
            for el in items:
                if isinstance(el, str):
                    return ERR("string as members")
                if isinstance(el, tuple) and el and isinstance(el[0], _SHAPES):
                    if len(el) == 2 and isinstance(el[1], dict):
                        recs.append((el[0], None, el[1]))
                    elif len(el) == 2:
                        recs.append((el[0], el[1], {}))
                        if el[1] is None:
                            return ERR("None as edge ID")
                    elif len(el) == 3:
                        recs.append((el[0], el[1], el[2]))
                        if el[1] is None:
                            return ERR("None as edge ID")
                    else:
                        return UNSPEC()
                else:
                    recs.append((el, None, {}))
        for mem, i, d in recs:
            m = self._members(_mat(mem))
            if m is None:
                return UNSPEC("members not an iterable of hashables")
            if not m and not isinstance(ebunch_to_add, dict) and i is None and not d:
                return UNSPEC("empty member list in format 1")
            if None in m:
                if i is not None and i in self.edge:
                    return UNSPEC("existing ID and invalid member: refusal or rejection, order undefined")
                return ERR("None as member")
            if i is None and isinstance(ebunch_to_add, dict):
                return ERR("None as edge ID")
            at = dict(attr)
            at.update(d)
            if i is None:
                autos.append((m, at))
            elif i in self.edge:
                warn = True
            else:
                self._put(i, m, at)
        return OK(warn, autos)

    def add_weighted_edges_from(self, ebunch, weight="weight", **attr):
        try:
            items = [(list(e[:-1]), {weight: e[-1]}) for e in ebunch]
        except (TypeError, IndexError):
            return UNSPEC()
        return self.add_edges_from([tuple(x) for x in items], **attr)

    def add_node_to_edge(self, edge, node):
        if edge is None or node is None:
            return ERR("None as ID")
        if not _hashable(edge) or not _hashable(node):
            return UNSPEC()
        if edge not in self.edge:
            self.edge[edge] = set()
            self.eattr[edge] = {}
        self.node.setdefault(node, {})
        self.edge[edge].add(node)
        return OK()

    def remove_node(self, n, strong=False, remove_empty=True):
        if not _hashable(n) or n not in self.node:
            return ERR("missing node")
        del self.node[n]
        for e in [e for e, m in self.edge.items() if n in m]:
            if strong:
                del self.edge[e]
                del self.eattr[e]
            else:
                self.edge[e].discard(n)
                if not self.edge[e] and remove_empty:
                    del self.edge[e]
                    del self.eattr[e]
        return OK()

    def remove_nodes_from(self, nodes, strong=False, remove_empty=True):
        warn = False
        for n in list(nodes):
            if n not in self.node:
                warn = True
                continue
            self.remove_node(n, strong=strong, remove_empty=remove_empty)
        return OK(warn)

    def remove_edge(self, idx):
        if not _hashable(idx) or idx not in self.edge:
            return ERR("missing edge")
        del self.edge[idx]
        del self.eattr[idx]
        return OK()

    def remove_edges_from(self, ebunch):
        for idx in list(ebunch):
            if idx not in self.edge:
                return ERR("missing edge")
            del self.edge[idx]
            del self.eattr[idx]
        return OK()

    def remove_node_from_edge(self, edge, node, remove_empty=True):
        if edge not in self.edge or node not in self.node or node not in self.edge[edge]:
            return ERR("missing ID or node not in edge")
        self.edge[edge].discard(node)
        if not self.edge[edge] and remove_empty:
            del self.edge[edge]
            del self.eattr[edge]
        return OK()

    def clear_edges(self):
        self.edge.clear()
        self.eattr.clear()
        return OK()

    def update(self, *, edges=None, nodes=None):
        if nodes:
            r = self.add_nodes_from(nodes)
            if r.kind != "ok":
                return r
        if edges:
            return self.add_edges_from(edges)
        return OK()

    def double_edge_swap(self, n_id1, n_id2, e_id1, e_id2):
        if n_id1 not in self.node or n_id2 not in self.node or e_id1 not in self.edge or e_id2 not in self.edge:
            return ERR("missing ID")
        if n_id1 not in self.edge[e_id1] or n_id2 not in self.edge[e_id2]:
            return ERR("node not in its edge")
        if n_id1 == n_id2 and e_id1 == e_id2:
            return OK()  # trivial swap: a no-op
        if n_id1 == n_id2:
            return UNSPEC("the same node in two different edges: no-op or rejection, the documentation does not say")
        if e_id1 == e_id2:
            return ERR("same edge, different nodes")
        if n_id2 in self.edge[e_id1] or n_id1 in self.edge[e_id2]:
            return ERR("swap would change sizes")
        self.edge[e_id1].discard(n_id1)
        self.edge[e_id1].add(n_id2)
        self.edge[e_id2].discard(n_id2)
        self.edge[e_id2].add(n_id1)
        return OK()

    def merge_duplicate_edges(self, rename="first", merge_rule="first", multiplicity=None):
        classes = collections.OrderedDict()
        for e, m in self.edge.items():
            classes.setdefault(frozenset(m), []).append(e)
        dups = [(m, ids) for m, ids in classes.items() if len(ids) > 1]
        for m, ids in dups:
            try:
                sorted(ids)
            except TypeError:
                return UNSPEC("unorderable duplicate IDs")
        if rename not in ("first", "tuple", "new") or merge_rule not in ("first", "union", "intersection"):
            return ANYERR("invalid rename / merge rule") if dups else UNSPEC("invalid option without duplicates")
        new = []
        for m, ids in dups:
            try:
                srt = sorted(ids)
            except TypeError:
                return UNSPEC("unorderable duplicate IDs")
            if merge_rule == "first":
                at = copy.deepcopy(self.eattr[srt[0]])
            else:
                keys = []
                for i in ids:
                    for k in self.eattr[i]:
                        if k not in keys:
                            keys.append(k)
                try:
                    sets = {k: {self.eattr[i].get(k) for i in ids} for k in keys}
                except TypeError:
                    return UNSPEC("unhashable attribute values")
                if merge_rule == "union":
                    at = sets
                else:
                    at = {k: (next(iter(v)) if len(v) == 1 else None) for k, v in sets.items()}
            if multiplicity is not None:
                at[multiplicity] = len(ids)
            nid = srt[0] if rename == "first" else tuple(srt) if rename == "tuple" else None
            new.append((m, nid, at, ids))
        for m, nid, at, ids in new:
            for i in ids:
                del self.edge[i]
                del self.eattr[i]
        autos = []
        for m, nid, at, ids in new:
            if nid is None:
                autos.append((list(m), at))
            else:
                self._put(nid, m, at)
        r = OK(warn=(merge_rule == "union"), autos=autos)
        return r


# ---------------------------------------------------------------------------------------------------------------


class RefDiHypergraph(_Base):
    directed = True

    def load(self, snap):
        self.node = {n: copy.deepcopy(snap["nattr"][n]) for n in snap["nodes"]}
        self.edge = collections.OrderedDict((e, (set(snap["members"][e][0]), set(snap["members"][e][1])))
                                            for e in snap["edges"])
        self.eattr = {e: copy.deepcopy(snap["eattr"][e]) for e in snap["edges"]}
        self.net = copy.deepcopy(snap["net"])
        return self

    def snap(self):
        return {"nodes": list(self.node), "edges": list(self.edge),
                "members": {e: (frozenset(t), frozenset(h)) for e, (t, h) in self.edge.items()},
                "nattr": self.node, "eattr": self.eattr, "net": self.net}

    def _put(self, eid, th, attr):
        t, h = th
        self.edge[eid] = (set(t), set(h))
        self.eattr[eid] = dict(attr)
        for n in list(t) + list(h):
            self.node.setdefault(n, {})

    @staticmethod
    def _th(members):
        if not isinstance(members, (list, tuple)):
            return "err"
        if len(members) != 2:
            return None
        try:
            t, h = list(members[0]), list(members[1])
        except TypeError:
            return None
        if not all(_hashable(x) for x in t + h):
            return None
        return t, h

    def add_edge(self, members, idx=None, **attr):
        th = self._th(members)
        if th == "err":
            return ANYERR("directed edge must be a list or tuple")
        if th is None:
            return UNSPEC()
        if None in th[0] or None in th[1]:
            if idx is not None and idx in self.edge:
                return UNSPEC("existing ID and invalid member")
            return ERR("None as member")
        if idx is not None and idx in self.edge:
            return OK(warn=True)
        if idx is None:
            return OK(autos=[(th, dict(attr))])
        self._put(idx, th, attr)
        return OK()

    def add_edges_from(self, ebunch_to_add, **attr):
        autos = []
        warn = False
        isdict = isinstance(ebunch_to_add, dict)
        if isdict:
            recs = [(m, i, {}) for i, m in ebunch_to_add.items()]
        else:
            try:
                items = list(ebunch_to_add)
            except TypeError:
                return UNSPEC()
            recs = []
            for el in items:
                if not isinstance(el, (list, tuple)):
                    return ANYERR("directed edge must be a list or tuple")
                if el and isinstance(el[0], tuple):
                    # record: ((tail, head), ...)
                    if len(el) == 2 and isinstance(el[1], dict):
                        recs.append((el[0], None, el[1]))
                    elif len(el) == 2:
                        if el[1] is None:
                            return ERR("None as edge ID")
                        recs.append((el[0], el[1], {}))
                    elif len(el) == 3:
                        if el[1] is None:
                            return ERR("None as edge ID")
                        recs.append((el[0], el[1], el[2]))
                    else:
                        return UNSPEC()
                else:
                    recs.append((el, None, {}))
        for mem, i, d in recs:
            th = self._th(mem)
            if th == "err":
                return ANYERR("directed edge must be a list or tuple")
            if th is None:
                return UNSPEC()
            if None in th[0] or None in th[1]:
                if i is not None and i in self.edge:
                    return UNSPEC("existing ID and invalid member: refusal or rejection, order undefined")
                return ERR("None as member")
            if i is None and isdict:
                return ERR("None as edge ID")
            at = dict(attr)
            at.update(d)
            if i is None:
                autos.append((th, at))
            elif i in self.edge:
                warn = True
            else:
                self._put(i, th, at)
        return OK(warn, autos)

    def add_node_to_edge(self, edge, node, direction):
        if direction not in ("in", "out"):
            return ERR("invalid direction")
        if edge is None or node is None:
            return ERR("None as ID")
        if edge not in self.edge:
            self.edge[edge] = (set(), set())
            self.eattr[edge] = {}
        self.node.setdefault(node, {})
        self.edge[edge][0 if direction == "in" else 1].add(node)
        return OK()

    def remove_node(self, n, strong=False, remove_empty=True):
        if not _hashable(n) or n not in self.node:
            return ERR("missing node")
        del self.node[n]
        for e in [e for e, (t, h) in self.edge.items() if n in t or n in h]:
            if strong:
                del self.edge[e]
                del self.eattr[e]
            else:
                t, h = self.edge[e]
                t.discard(n)
                h.discard(n)
                if not t and not h and remove_empty:
                    del self.edge[e]
                    del self.eattr[e]
        return OK()

    def remove_nodes_from(self, nodes, strong=False, remove_empty=True):
        warn = False
        for n in list(nodes):
            if n not in self.node:
                warn = True
                continue
            self.remove_node(n, strong=strong, remove_empty=remove_empty)
        return OK(warn)

    def remove_edge(self, idx):
        if not _hashable(idx) or idx not in self.edge:
            return ERR("missing edge")
        del self.edge[idx]
        del self.eattr[idx]
        return OK()

    def remove_edges_from(self, ebunch):
        for idx in list(ebunch):
            if idx not in self.edge:
                return ERR("missing edge")
            del self.edge[idx]
            del self.eattr[idx]
        return OK()

    def remove_node_from_edge(self, edge, node, direction, remove_empty=True):
        if direction not in ("in", "out"):
            return ERR("invalid direction")
        k = 0 if direction == "in" else 1
        if edge not in self.edge or node not in self.node or node not in self.edge[edge][k]:
            return ERR("missing ID or node not on that side")
        self.edge[edge][k].discard(node)
        t, h = self.edge[edge]
        if not t and not h and remove_empty:
            del self.edge[edge]
            del self.eattr[edge]
        return OK()


# ---------------------------------------------------------------------------------------------------------------


class RefSimplicialComplex(RefHypergraph):
    """Simplices keyed by ID; pending additions are matched by member set.  `autos` entries are
    (members, attrs, explicit_id_or_None)."""

    def _has(self, fs):
        return any(frozenset(m) == fs for m in self.edge.values())

    def _faces(self, m, top):
        m = sorted(set(m), key=repr)
        out = []
        for k in range(2, top + 1):
            out.extend(frozenset(c) for c in itertools.combinations(m, k))
        return out

    def _bulk(self, recs, max_order, attr, isdict):
        """recs: list of (members, explicit id or None, attr dict)."""
        pending = []  # (frozenset, attrs, explicit id or None)
        pset = set()
        faces = []
        warn = False
        ids_taken = set(self.edge)
        for mem, i, d in recs:
            m = self._members(mem)
            if m is None:
                return UNSPEC()
            fs = frozenset(m)
            if not fs:
                continue
            if None in fs:
                if i is not None and i in ids_taken:
                    return UNSPEC("existing ID and invalid member")
                return ERR("None as member")
            if self._has(fs) or fs in pset:
                continue
            if i is not None and i in ids_taken and max_order is not None and len(fs) > max_order + 1:
                return UNSPEC("explicit ID collides but the simplex is truncated anyway: ID use is undefined")
            if i is not None and i in ids_taken:
                warn = True
                continue
            if max_order is not None and len(fs) > max_order + 1:
                faces.extend(self._faces(fs, max_order + 1))
                continue
            at = dict(attr)
            at.update(d)
            pending.append((fs, at, i))
            pset.add(fs)
            if i is not None:
                ids_taken.add(i)
            faces.extend(self._faces(fs, len(fs) - 1))
        for f in faces:
            if f and not self._has(f) and f not in pset:
                pending.append((f, {}, None))
                pset.add(f)
        return Res("ok", warn, pending)

    def add_simplex(self, members, idx=None, **attr):
        if isinstance(members, str):
            return UNSPEC()
        m = self._members(_mat(members))
        if m is None:
            return UNSPEC()
        if None in m:
            return ERR("None as member")
        fs = frozenset(m)
        if not fs or self._has(fs):
            return OK()
        if idx is not None and idx in self.edge:
            return OK(warn=True)
        return self._bulk([(m, idx, {})], None, attr, False)

    def add_edge(self, edge, idx=None, **attr):
        return self.add_simplex(edge, idx, **attr)

    def add_simplices_from(self, ebunch_to_add, max_order=None, **attr):
        isdict = isinstance(ebunch_to_add, dict)
        if isdict:
            recs = [(_mat(m), i, {}) for i, m in ebunch_to_add.items()]
        else:
            try:
                items = list(ebunch_to_add)
            except TypeError:
                return UNSPEC()
            recs = []
            for el in items:
                if isinstance(el, str):
                    return ERR("string as members")
                if isinstance(el, tuple) and el and isinstance(el[0], _SHAPES):
                    if len(el) == 2 and isinstance(el[1], dict):
                        recs.append((_mat(el[0]), None, el[1]))
                    elif len(el) == 2:
                        recs.append((_mat(el[0]), el[1], {}))
                    elif len(el) == 3:
                        recs.append((_mat(el[0]), el[1], el[2]))
                    else:
                        return UNSPEC()
                else:
                    recs.append((_mat(el), None, {}))
            if recs and not self._members(recs[0][0]) and not recs[0][0]:
                return UNSPEC("empty first element: format cannot be detected")
        return self._bulk(recs, max_order, attr, isdict)

    def add_edges_from(self, ebunch_to_add, max_order=None, **attr):
        return self.add_simplices_from(ebunch_to_add, max_order, **attr)

    def add_weighted_simplices_from(self, ebunch_to_add, max_order=None, weight="weight", **attr):
        try:
            items = [(list(e[:-1]), {weight: e[-1]}) for e in ebunch_to_add]
        except (TypeError, IndexError):
            return UNSPEC()
        return self.add_simplices_from([tuple(x) for x in items], max_order, **attr)

    def add_weighted_edges_from(self, ebunch_to_add, max_order=None, weight="weight", **attr):
        return self.add_weighted_simplices_from(ebunch_to_add, max_order, weight, **attr)

    def close(self):
        faces = []
        for m in self.edge.values():
            faces.extend(self._faces(m, len(m) - 1))
        pending, pset = [], set()
        for f in faces:
            if not self._has(f) and f not in pset:
                pending.append((f, {}, None))
                pset.add(f)
        return Res("ok", False, pending)

    def remove_node(self, n):
        return RefHypergraph.remove_node(self, n, strong=True)

    def remove_nodes_from(self, nodes):
        return RefHypergraph.remove_nodes_from(self, nodes, strong=True)

    def remove_simplex_id(self, idx):
        if not _hashable(idx) or idx not in self.edge:
            return ERR("missing simplex")
        base = frozenset(self.edge[idx])
        for e in [e for e, m in self.edge.items() if base <= frozenset(m)]:
            del self.edge[e]
            del self.eattr[e]
        return OK()

    def remove_edge(self, idx):
        return self.remove_simplex_id(idx)

    def remove_simplex_ids_from(self, ebunch):
        start = set(self.edge)
        for idx in list(ebunch):
            if idx in start and idx not in self.edge:
                continue  # removed earlier in this call as a superset
            r = self.remove_simplex_id(idx)
            if r.kind != "ok":
                return r
        return OK()

    def remove_edges_from(self, ebunch):
        return self.remove_simplex_ids_from(ebunch)

    def add_node_to_edge(self, edge, node):
        return ERR("not implemented for complexes")

    # inherited Hypergraph mutators that are not the complex's own: not judged
    def remove_node_from_edge(self, *a, **k):
        return UNSPEC()

    def double_edge_swap(self, *a, **k):
        return UNSPEC()

    def merge_duplicate_edges(self, *a, **k):
        return UNSPEC()

    def clear_edges(self):
        return UNSPEC()

    def update(self, **k):
        return UNSPEC()


def model_for(obj_or_name):
    name = obj_or_name if isinstance(obj_or_name, str) else type(obj_or_name).__name__
    return {"Hypergraph": RefHypergraph, "DiHypergraph": RefDiHypergraph, "SimplicialComplex": RefSimplicialComplex}[name]
