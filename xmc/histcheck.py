"""Shared driver for E1 checks: run one or several Specs, turn monitor hits into Violations, fill evidence,
and replay a recorded history in a plain loop."""
from . import canon as C
from . import env, explore
from .evidence import Violation

SEEDS_H = [
    "xgi.Hypergraph()",
    "xgi.Hypergraph({2: [1, 2], 1: [2, 3], 0: [3]})",
    "xgi.Hypergraph([[1, 2], [1, 2], [3]])",
    "mk_h_empty_edge()",
    "xgi.Hypergraph([['a', 'b'], ['b', 'c', 'd']])",
    "xgi.from_bipartite_edgelist([(1, 0), (2, 0), (2, 1), (3, 1)])",
]


def _mk_h_empty_edge():
    import xgi

    H = xgi.Hypergraph()
    H.add_nodes_from([1, 2, 3])
    H.add_edge([1, 2])
    H.add_edge([])
    return H


def base_namespace():
    from . import alphabets

    ns = alphabets.namespace()
    ns["mk_h_empty_edge"] = _mk_h_empty_edge
    return ns


def run_specs(prop, check, specs, ev, nproc=None, stop_on_violation=True):
    """specs: list of explore.Spec.  Returns list[Violation]."""
    nproc = nproc or env.nproc()
    viols = []
    for spec in specs:
        res = explore.run(spec, nproc=nproc, stop_on_violation=stop_on_violation)
        ev.add(states=res.states, transitions=res.transitions, evaluations=res.transitions,
               distinct_nontrivial=res.states)
        for k, v in res.outcomes.items():
            ev.outcome(k, v)
        ev.part(spec.name, states=res.states, transitions=res.transitions, depth_completed=res.max_depth,
                depth_bound=spec.depth, deviation_bound=spec.dev_bound, levels=res.levels,
                invariant_evaluations=res.inv_evals, alphabet_static=len(spec.static_ops),
                generators=len(spec.gens), initial_states=len(spec.inits),
                methods=dict(sorted(res.methods.items(), key=lambda kv: -kv[1])[:60]),
                stopped_early=res.truncated)
        if res.truncated:
            ev.cap(f"{spec.name}: search stopped after depth {res.max_depth} because a violation was found")
        for mon, msg, tags, hist in res.viols:
            case = {"check": check, "kind": "history", "spec": spec.name, "history": list(hist), "monitor": mon}
            viols.append(Violation(prop, mon, msg, case, tags))
    return viols


def replay_history(spec, case):
    """Plain-loop replay: rebuild the state from the recorded history and re-evaluate the monitors of `spec` on
    the last transition.  Returns list of messages of the recorded monitor (empty = holds)."""
    hist = tuple(case["history"])
    ns = spec.ns()
    msgs = []
    if len(hist) == 1:
        obj = spec.build(hist, ns)
        ctx = explore.Ctx()
        ctx.spec, ctx.history, ctx.op, ctx.ns = spec, hist, None, ns
        ctx.obj, ctx.out, ctx.key, ctx.changed, ctx.pre, ctx.prekey = obj, explore.Outcome(), None, True, None, None
        fs = spec.invariants
    else:
        obj = spec.build(hist[:-1], ns)
        ctx = explore.Ctx()
        ctx.spec, ctx.history, ctx.op, ctx.ns = spec, hist[:-1], hist[-1], ns
        ctx.prekey = C.state_key(obj)
        try:
            ctx.pre = C.snapshot(obj)
        except Exception:  # noqa: BLE001
            ctx.pre = None
        if spec.prepare:
            spec.prepare(ctx, obj)
        out = explore.apply_op(ns, obj, hist[-1])
        ctx.obj, ctx.out = obj, out
        ctx.key = C.state_key(obj)
        ctx.changed = ctx.key != ctx.prekey
        fs = list(spec.steps) + list(spec.invariants)
    for f in fs:
        for mon, msg, tags in f(ctx) or ():
            if mon == case.get("monitor"):
                msgs.append(f"{mon}: {msg}")
    return msgs
