"""Shared driver for E1 checks: run one or several Specs, turn monitor hits into Violations, fill evidence,
and replay a recorded history in a plain loop."""
from . import canon as C
from . import env, explore
from .evidence import Violation

SEEDS_H = [
    "xgi.Hypergraph()",
    "xgi.Hypergraph({2: [1, 2], 1: [2, 3], 0: [3]})",
    "xgi.Hypergraph([[1, 2], [1, 2], [3]])",
    "mk_h_empty_edge()",
    "xgi.Hypergraph([['a', 'b'], ['b', 'c', 'd']])",
    "xgi.from_bipartite_edgelist([(1, 0), (2, 0), (2, 1), (3, 1)])",
]


def _mk_h_empty_edge():
    import xgi

    H = xgi.Hypergraph()
    H.add_nodes_from([1, 2, 3])
    H.add_edge([1, 2])
    H.add_edge([])
    return H


def base_namespace():
    from . import alphabets

    ns = alphabets.namespace()
    ns["mk_h_empty_edge"] = _mk_h_empty_edge
    return ns


def run_specs(prop, check, specs, ev, nproc=None, stop_on_violation=True):
    """specs: list of explore.Spec.  Returns list[Violation]."""
    nproc = nproc or env.nproc()
    viols = []
    for spec in specs:
        res = explore.run(spec, nproc=nproc, stop_on_violation=stop_on_violation)
        ev.add(states=res.states, transitions=res.transitions, evaluations=res.transitions,
               distinct_nontrivial=res.states)
        for k, v in res.outcomes.items():
            ev.outcome(k, v)
        ev.part(spec.name, states=res.states, transitions=res.transitions, depth_completed=res.max_depth,
                depth_bound=spec.depth, deviation_bound=spec.dev_bound, levels=res.levels,
                invariant_evaluations=res.inv_evals, alphabet_static=len(spec.static_ops),
                generators=len(spec.gens), initial_states=len(spec.inits),
                methods=dict(sorted(res.methods.items(), key=lambda kv: -kv[1])[:60]),
                stopped_early=res.truncated)
        if res.truncated:
            ev.cap(f"{spec.name}: search stopped after depth {res.max_depth} because a violation was found")
        for mon, msg, tags, hist in res.viols:
            case = {"check": check, "kind": "history", "spec": spec.name, "history": list(hist), "monitor": mon}
            viols.append(Violation(prop, mon, msg, case, tags))
    return viols


def replay_history(spec, case):
    """Plain-loop replay: rebuild the state from the recorded history and re-evaluate the monitors of `spec` on
    the last transition.  Returns list of messages of the recorded monitor (empty = holds)."""
    hist = tuple(case["history"])
    ns = spec.ns()
    msgs = []
    if len(hist) == 1:
        obj = spec.build(hist, ns)
        ctx = explore.Ctx()
        ctx.spec, ctx.history, ctx.op, ctx.ns = spec, hist, None, ns
        ctx.obj, ctx.out, ctx.key, ctx.changed, ctx.pre, ctx.prekey = obj, explore.Outcome(), None, True, None, None
        fs = spec.invariants
    else:
        obj = spec.build(hist[:-1], ns)
        ctx = explore.Ctx()
        ctx.spec, ctx.history, ctx.op, ctx.ns = spec, hist[:-1], hist[-1], ns
        ctx.prekey = C.state_key(obj)
        try:
            ctx.pre = C.snapshot(obj)
        except Exception:  # noqa: BLE001
            ctx.pre = None
        if spec.prepare:
            spec.prepare(ctx, obj)
        out = explore.apply_op(ns, obj, hist[-1])
        ctx.obj, ctx.out = obj, out
        ctx.key = C.state_key(obj)
        ctx.changed = ctx.key != ctx.prekey
        fs = list(spec.steps) + list(spec.invariants)
    for f in fs:
        for mon, msg, tags in f(ctx) or ():
            if mon == case.get("monitor"):
                msgs.append(f"{mon}: {msg}")
    return msgs


# ---------------------------------------------------------------------------------------------------------------
# histories with a NaN label (a hashable that is unequal to itself, found again only by identity).  They are run in this
# process, on one shared NaN object, because a NaN does not survive pickling or repr() as *the same* label.

NAN = float("nan")

NAN_OPS = {
    "Hypergraph": [
        ("H.add_node(NAN)", lambda H: H.add_node(NAN)),
        ("H.add_edge([1, NAN])", lambda H: H.add_edge([1, NAN])),
        ("H.add_edge([NAN])", lambda H: H.add_edge([NAN])),
        ("H.add_edge([3, 4, NAN], idx=7)", lambda H: H.add_edge([3, 4, NAN], idx=7)),
        ("H.add_edges_from([[1, NAN], [2, 3]])", lambda H: H.add_edges_from([[1, NAN], [2, 3]])),
        ("H.add_edges_from({'x': [2, NAN]})", lambda H: H.add_edges_from({"x": [2, NAN]})),
        ("H.add_edges_from([([NAN, 3], 8)])", lambda H: H.add_edges_from([([NAN, 3], 8)])),
        ("H.add_edges_from([([NAN, 3], 9, {'w': 1})])", lambda H: H.add_edges_from([([NAN, 3], 9, {"w": 1})])),
        ("H.add_node_to_edge(0, NAN)", lambda H: H.add_node_to_edge(0, NAN)),
        ("H.add_node_to_edge(5, NAN)", lambda H: H.add_node_to_edge(5, NAN)),
        ("H.remove_node(NAN)", lambda H: H.remove_node(NAN)),
        ("H.remove_node_from_edge(0, NAN)", lambda H: H.remove_node_from_edge(0, NAN)),
        ("H.add_edge([1, 2])", lambda H: H.add_edge([1, 2])),
        ("H.remove_edge(0)", lambda H: H.remove_edge(0)),
    ],
    "DiHypergraph": [
        ("H.add_node(NAN)", lambda H: H.add_node(NAN)),
        ("H.add_edge(([1], [NAN]))", lambda H: H.add_edge(([1], [NAN]))),
        ("H.add_edge(([NAN], [NAN, 2]), idx=7)", lambda H: H.add_edge(([NAN], [NAN, 2]), idx=7)),
        ("H.add_edges_from([([1], [NAN]), ([2], [3])])", lambda H: H.add_edges_from([([1], [NAN]), ([2], [3])])),
        ("H.add_edges_from({'x': ([2], [NAN])})", lambda H: H.add_edges_from({"x": ([2], [NAN])})),
        ("H.add_edges_from([(([NAN], [3]), 8, {'w': 1})])", lambda H: H.add_edges_from([(([NAN], [3]), 8, {"w": 1})])),
        ("H.add_node_to_edge(0, NAN, 'in')", lambda H: H.add_node_to_edge(0, NAN, "in")),
        ("H.add_node_to_edge(5, NAN, 'out')", lambda H: H.add_node_to_edge(5, NAN, "out")),
        ("H.remove_node(NAN)", lambda H: H.remove_node(NAN)),
        ("H.add_edge(([1], [2]))", lambda H: H.add_edge(([1], [2]))),
        ("H.remove_edge(0)", lambda H: H.remove_edge(0)),
    ],
    "SimplicialComplex": [
        ("H.add_node(NAN)", lambda H: H.add_node(NAN)),
        ("H.add_simplex([1, NAN])", lambda H: H.add_simplex([1, NAN])),
        ("H.add_simplex([3, 4, NAN], idx=7)", lambda H: H.add_simplex([3, 4, NAN], idx=7)),
        ("H.add_simplices_from([[1, NAN, 2], [2, 3]])", lambda H: H.add_simplices_from([[1, NAN, 2], [2, 3]])),
        ("H.add_simplices_from({'x': [2, NAN]})", lambda H: H.add_simplices_from({"x": [2, NAN]})),
        ("H.add_simplices_from([([NAN, 3, 4], 8, {'w': 1})])", lambda H: H.add_simplices_from([([NAN, 3, 4], 8, {"w": 1})])),
        ("H.remove_node(NAN)", lambda H: H.remove_node(NAN)),
        ("H.add_simplex([1, 2, 3])", lambda H: H.add_simplex([1, 2, 3])),
        ("H.remove_simplex_id(0)", lambda H: H.remove_simplex_id(0)),
    ],
}


def _nan_init(cls):
    import xgi

    if cls == "Hypergraph":
        return xgi.Hypergraph([[1, 2], [2, 3]])
    if cls == "DiHypergraph":
        return xgi.DiHypergraph([([1], [2]), ([2], [3])])
    return xgi.SimplicialComplex([[1, 2], [2, 3]])


def run_nan_history(cls, idxs, invariants):
    """Execute one history (indices into NAN_OPS[cls]); returns the first violation as (monitor, message, history) or None."""
    import types
    import warnings

    H = _nan_init(cls)
    hist = [f"<{cls} with edges [1, 2], [2, 3]>"]
    for i in idxs:
        label, f = NAN_OPS[cls][i]
        hist.append(label)
        raised = None
        with warnings.catch_warnings():
            warnings.simplefilter("ignore")
            try:
                f(H)
            except RecursionError:
                raise
            except Exception as e:  # noqa: BLE001
                raised = e
        ctx = types.SimpleNamespace(obj=H, op=label, history=tuple(hist), out=types.SimpleNamespace(raised=raised is not None))
        for inv in invariants:
            for mon, msg, tags in inv(ctx) or ():
                return mon, f"[NaN label] after {hist[1:]}{' (the last call raised ' + type(raised).__name__ + ')' if raised else ''}: {msg}", list(idxs)
    return None


def nan_histories(prop, check, cls, invariants, ev, depth=3):
    """All histories of length <= depth over NAN_OPS[cls], sequentially in this process."""
    import itertools

    viols = []
    n = 0
    ops = NAN_OPS[cls]
    for d in range(1, depth + 1):
        for idxs in itertools.product(range(len(ops)), repeat=d):
            n += 1
            r = run_nan_history(cls, idxs, invariants)
            if r is not None:
                mon, msg, idx = r
                viols.append(Violation(prop, mon, msg, {"check": check, "kind": "nan-history", "cls": cls, "ops": idx, "monitor": mon},
                                       {"method": ops[idx[-1]][0].split("(", 1)[0], "nan": True}))
                if len(viols) >= 5:
                    break
        if len(viols) >= 5:
            break
    ev.add(states=n, transitions=n, evaluations=n, distinct_nontrivial=n)
    ev.part(f"{cls}-nan-label-histories", histories=n, depth=depth, alphabet=len(ops))
    return viols

