"""xmc - explicit-state, implementation-level model checking helpers for xgi (see /verif/DESIGN.md)."""
