"""Explicit-state search over edit histories of the real xgi classes (DESIGN.md 3.1, shapes E1 and E2).

A search node is an operation history (tuple of Python expression strings over the name `H`); the state is
rebuilt by replaying the history on a fresh object created by the `init` expression.  Level-synchronous BFS;
each level's frontier is partitioned over a fork()ed worker pool; the master keeps the seen-set of 128-bit digests
of canonical keys.  Results are merged in frontier order, so the search is deterministic whatever the worker
scheduling.

Deviation bounding: a *deviation* is a call that raises and nevertheless changes the state (partial application).
Histories with more than `dev_bound` deviations are not extended.  Calls that raise and leave the state unchanged
cost nothing and produce no new state.
"""
import multiprocessing as mp
import sys
import traceback
import warnings

from . import canon as C

_CODE = {}


def _compile(expr):
    c = _CODE.get(expr)
    if c is None:
        c = _CODE[expr] = compile(expr, "<op>", "eval")
    return c


class Outcome:
    __slots__ = ("raised", "exc", "exc_obj", "ret", "warns")

    def __init__(self):
        self.raised = False
        self.exc = None
        self.exc_obj = None
        self.ret = None
        self.warns = ()

    def label(self):
        return ("raise:" + self.exc) if self.raised else "return"


def apply_op(ns, obj, expr):
    """Evaluate one operation expression against `obj` (bound to the name H).  Never raises."""
    out = Outcome()
    ns["H"] = obj
    with warnings.catch_warnings(record=True) as w:
        warnings.simplefilter("always")
        try:
            out.ret = eval(_compile(expr), ns)
        except RecursionError:
            raise
        except Exception as e:  # noqa: BLE001 - the library under test may raise anything
            out.raised = True
            out.exc = type(e).__name__
            out.exc_obj = e
    out.warns = tuple(type(x.message).__name__ for x in w)
    return out


class Spec:
    """One exploration problem."""

    def __init__(self, name, inits, static_ops=(), gens=(), invariants=(), steps=(), depth=3, dev_bound=1,
                 namespace=None, prepare=None, op_filter=None):
        self.name = name
        self.inits = list(inits)  # list of expressions creating the initial object(s)
        self.static_ops = list(static_ops)
        self.gens = list(gens)  # callables obj -> list of expressions (state-dependent menus)
        self.invariants = list(invariants)  # f(ctx) -> list[(monitor, message, tags)] evaluated on new states
        self.steps = list(steps)  # f(ctx) -> ... evaluated on every transition
        self.depth = depth
        self.dev_bound = dev_bound
        self.namespace = namespace or (lambda: {})
        self.prepare = prepare  # optional f(obj, ns) run after building a state and before each op (held views)
        self.op_filter = op_filter

    def ns(self):
        import xgi
        import numpy as np

        d = {"xgi": xgi, "np": np}
        d.update(self.namespace())
        return d

    def build(self, history, ns=None):
        ns = ns or self.ns()
        obj = eval(_compile(history[0]), ns)
        for expr in history[1:]:
            apply_op(ns, obj, expr)
        return obj

    def ops_for(self, obj):
        ops = list(self.static_ops)
        for g in self.gens:
            ops.extend(g(obj))
        if self.op_filter:
            ops = [o for o in ops if self.op_filter(obj, o)]
        return ops


class Ctx:
    """What a monitor sees for one transition."""

    __slots__ = ("spec", "history", "op", "obj", "out", "changed", "pre", "prekey", "key", "ns", "extra")

    def __init__(self):
        self.extra = {}


_SPEC = None
_LOCAL_CHECKED = set()


def _expand_chunk(chunk):
    spec = _SPEC
    ns = spec.ns()
    new_states = []
    viols = []
    stats = {"transitions": 0, "outcomes": {}, "methods": {}, "inv_evals": 0}
    try:
        for history, dev in chunk:
            obj = spec.build(history, ns)
            prekey = C.state_key(obj)
            try:
                pre = C.snapshot(obj)
            except Exception:  # noqa: BLE001 - a corrupted state (already reported by an invariant)
                pre = None
            ops = spec.ops_for(obj)
            dirty = False
            for op in ops:
                if dirty:
                    obj = spec.build(history, ns)
                    dirty = False
                ctx = Ctx()
                ctx.spec, ctx.history, ctx.op, ctx.ns = spec, history, op, ns
                ctx.pre, ctx.prekey = pre, prekey
                if spec.prepare:
                    spec.prepare(ctx, obj)
                out = apply_op(ns, obj, op)
                key = C.state_key(obj)
                changed = key != prekey
                ctx.obj, ctx.out, ctx.key, ctx.changed = obj, out, key, changed
                stats["transitions"] += 1
                lab = out.label()
                stats["outcomes"][lab] = stats["outcomes"].get(lab, 0) + 1
                m = op.split("(", 1)[0]
                stats["methods"][m] = stats["methods"].get(m, 0) + 1
                for f in spec.steps:
                    for mon, msg, tags in f(ctx) or ():
                        viols.append((mon, msg, tags, history + (op,)))
                if changed:
                    dirty = True
                    dg = C.digest(key)
                    if dg not in _LOCAL_CHECKED:
                        _LOCAL_CHECKED.add(dg)
                        stats["inv_evals"] += 1
                        for f in spec.invariants:
                            for mon, msg, tags in f(ctx) or ():
                                viols.append((mon, msg, tags, history + (op,)))
                    ndev = dev + (1 if out.raised else 0)
                    if ndev <= spec.dev_bound:
                        new_states.append((dg, history + (op,), ndev))
                elif spec.prepare:
                    # held views may carry state of their own; rebuild to keep executions independent
                    pass
            if len(viols) > 200:
                break
    except C.CannotCanonicalise as e:
        return {"fatal": f"cannot canonicalise: {e}"}
    except Exception:  # noqa: BLE001
        return {"fatal": traceback.format_exc()}
    return {"new": new_states, "viols": viols[:200], "stats": stats}


class Result:
    def __init__(self):
        self.states = 0
        self.transitions = 0
        self.levels = []
        self.outcomes = {}
        self.methods = {}
        self.viols = []  # (monitor, message, tags, history)
        self.histories = []  # one history per canonical state (if keep_histories)
        self.inv_evals = 0
        self.max_depth = 0
        self.truncated = False


def run(spec, nproc=1, keep_histories=False, stop_on_violation=True, max_states=None, progress=None):
    """Breadth-first search to spec.depth.  Returns a Result."""
    global _SPEC
    _SPEC = spec
    _LOCAL_CHECKED.clear()
    res = Result()
    seen = {}
    frontier = []
    ns = spec.ns()
    for init in spec.inits:
        h = (init,)
        obj = spec.build(h, ns)
        key = C.state_key(obj)
        dg = C.digest(key)
        if dg in seen:
            continue
        seen[dg] = 0
        frontier.append((h, 0))
        if keep_histories:
            res.histories.append(h)
        # invariants on initial states
        ctx = Ctx()
        ctx.spec, ctx.history, ctx.op, ctx.ns = spec, h, None, ns
        ctx.obj, ctx.out, ctx.key, ctx.changed, ctx.pre, ctx.prekey = obj, Outcome(), key, True, None, None
        for f in spec.invariants:
            for mon, msg, tags in f(ctx) or ():
                res.viols.append((mon, msg, tags, h))
    pool = None
    if nproc > 1:
        pool = mp.get_context("fork").Pool(nproc)
    try:
        for level in range(spec.depth):
            if not frontier:
                break
            nchunks = max(1, min(len(frontier), nproc * 8))
            size = (len(frontier) + nchunks - 1) // nchunks
            chunks = [frontier[i:i + size] for i in range(0, len(frontier), size)]
            outs = pool.map(_expand_chunk, chunks) if pool else [_expand_chunk(c) for c in chunks]
            nxt = []
            for o in outs:
                if "fatal" in o:
                    print("HARNESS-ERROR:", o["fatal"], file=sys.stderr)
                    sys.exit(2)
                st = o["stats"]
                res.transitions += st["transitions"]
                res.inv_evals += st["inv_evals"]
                for k, v in st["outcomes"].items():
                    res.outcomes[k] = res.outcomes.get(k, 0) + v
                for k, v in st["methods"].items():
                    res.methods[k] = res.methods.get(k, 0) + v
                res.viols.extend(o["viols"])
                for dg, h, dev in o["new"]:
                    old = seen.get(dg)
                    if old is None:
                        seen[dg] = dev
                        nxt.append((h, dev))
                        if keep_histories:
                            res.histories.append(h)
                    elif dev < old:
                        seen[dg] = dev
                        nxt.append((h, dev))  # reached with fewer deviations: re-expand
            res.levels.append(len(nxt))
            res.max_depth = level + 1
            frontier = nxt
            if progress:
                progress(level + 1, len(seen), res.transitions)
            if res.viols and stop_on_violation:
                res.truncated = True
                break
            if max_states and len(seen) > max_states:
                res.truncated = True
                break
    finally:
        if pool:
            pool.close()
            pool.join()
    res.states = len(seen)
    return res


def parallel_map(fn, items, nproc=1, chunk=None):
    """Deterministic fork-pool map for E2 style checks (fn must be a module-level callable)."""
    items = list(items)
    if nproc <= 1 or len(items) < 2:
        return [fn(x) for x in items]
    with mp.get_context("fork").Pool(nproc) as pool:
        return pool.map(fn, items, chunksize=chunk or max(1, len(items) // (nproc * 8)))
