"""Evidence files, violation records / replay artefacts, known findings."""
import hashlib
import json
import os
import time

from . import env

EVIDENCE_SCHEMA = "/root/.vp/EVIDENCE.schema.json"
_FALLBACK_SCHEMA = os.path.join(env.VERIF_DIR, "schemas", "EVIDENCE.schema.json")


class Violation:
    def __init__(self, prop, monitor, message, case, tags=None):
        self.prop = prop
        self.monitor = monitor
        self.message = str(message)[:2000]
        self.case = case  # JSON-able replay record: {"check": ..., "kind": ..., ...}
        self.tags = dict(tags or {})
        self.reproduced = None

    def record(self):
        return {"property": self.prop, "monitor": self.monitor, "message": self.message, "tags": _plain(self.tags),
                "case": _plain(self.case), "reproduced": self.reproduced}

    def key(self):
        return hashlib.blake2b(json.dumps([self.prop, self.monitor, _plain(self.case)], default=repr).encode(),
                               digest_size=8).hexdigest()


def _is_np_scalar(v):
    try:
        import numpy as np

        return isinstance(v, np.generic)
    except Exception:  # noqa: BLE001
        return False


def _plain_key(k):
    if isinstance(k, str) and not k.startswith("<"):
        return k
    if _is_np_scalar(k):
        return f"<np.{type(k).__name__}>{k.item()!r}"
    return f"<{type(k).__name__}>{k!r}"


def _plain(v):
    """JSON-safe, *invertible* rendering: dict keys that are not strings become "<type>repr"; sets, frozensets and tuples
    are tagged so that `unplain` restores them (replay files must rebuild exactly the recorded input)."""
    if isinstance(v, dict):
        return {_plain_key(k): _plain(x) for k, x in v.items()}
    if _is_np_scalar(v):
        return {"__numpy__": [type(v).__name__, v.item()]}
    if isinstance(v, bytes):
        return {"__bytes__": v.decode("latin-1")}
    if isinstance(v, list):
        return [_plain(x) for x in v]
    if isinstance(v, tuple):
        return {"__tuple__": [_plain(x) for x in v]}
    if isinstance(v, frozenset):
        return {"__frozenset__": sorted((_plain(x) for x in v), key=repr)}
    if isinstance(v, set):
        return {"__set__": sorted((_plain(x) for x in v), key=repr)}
    if isinstance(v, (str, int, float, bool)) or v is None:
        return v
    return repr(v)


def unplain(v):
    """Inverse of _plain (used when a replay file is loaded)."""
    import ast
    import re

    if isinstance(v, dict):
        if len(v) == 1:
            (k, x), = v.items()
            if k == "__tuple__":
                return tuple(unplain(y) for y in x)
            if k == "__set__":
                return set(unplain(y) for y in x)
            if k == "__frozenset__":
                return frozenset(unplain(y) for y in x)
            if k == "__numpy__":
                import numpy as np

                return getattr(np, x[0])(x[1])
            if k == "__bytes__":
                return x.encode("latin-1")
        out = {}
        for k, x in v.items():
            m = re.match(r"^<(int|float|bool|NoneType|tuple|str|bytes|frozenset|np\.\w+)>(.*)$", k) if isinstance(k, str) else None
            if m:
                try:
                    if m.group(1) == "frozenset":
                        k = eval(m.group(2), {"frozenset": frozenset})
                    else:
                        k = ast.literal_eval(m.group(2))
                    if m.group(1).startswith("np."):
                        import numpy as np

                        k = getattr(np, m.group(1)[3:])(k)
                except (ValueError, SyntaxError, AttributeError):
                    pass
            out[k] = unplain(x)
        return out
    if isinstance(v, list):
        return [unplain(x) for x in v]
    return v


def out_root():
    """Evidence and replays of runs against /repo live in /verif; runs against a scratch tree (VERIF_REPO set, used
    only for my own mutation experiments) go to /verif/.scratch so they never overwrite real evidence."""
    if env.REPO == "/repo":
        return env.VERIF_DIR
    return os.path.join(env.VERIF_DIR, ".scratch")


def write_replay(v):
    d = os.path.join(out_root(), "replays", v.prop)
    os.makedirs(d, exist_ok=True)
    p = os.path.join(d, v.key() + ".json")
    with open(p, "w") as f:
        json.dump(v.record(), f, indent=1, default=repr)
    return p


def load_known():
    p = os.path.join(env.VERIF_DIR, "known_findings.json")
    try:
        with open(p) as f:
            return json.load(f).get("findings", [])
    except FileNotFoundError:
        return []


def match_known(v, findings):
    for f in findings:
        if f.get("property") != v.prop:
            continue
        if f.get("monitor") and f["monitor"] != v.monitor:
            continue
        tags = f.get("tags", {})
        if all(v.tags.get(k) == val for k, val in tags.items()):
            return f
    return None


class Evidence:
    """Collects what a run covered; written (after schema validation) on every run."""

    def __init__(self, prop, tier):
        self.prop = prop
        self.tier = tier
        self.t0 = time.time()
        self.cov = {"states": 0, "transitions": 0, "traces_validated_against_impl": 0, "samples": [],
                    "evaluations": 0, "distinct_nontrivial": 0, "rule": "", "exhaustive": True, "bounds": {},
                    "caps_hit": [], "outcomes": {}, "parts": {}, "not_exercised": [], "notes": []}
        self.assumptions = []
        self.violations = 0
        self.known = 0

    # ---- helpers used by checks
    def add(self, **kw):
        for k, v in kw.items():
            self.cov[k] = self.cov.get(k, 0) + v

    def sample(self, s, cap=6):
        if len(self.cov["samples"]) < cap:
            self.cov["samples"].append(s)

    def outcome(self, name, n=1):
        self.cov["outcomes"][name] = self.cov["outcomes"].get(name, 0) + n

    def part(self, name, **kw):
        self.cov["parts"].setdefault(name, {}).update(kw)

    def note(self, s):
        if s not in self.cov["notes"]:
            self.cov["notes"].append(s)

    def cap(self, s):
        self.cov["exhaustive"] = False
        if s not in self.cov["caps_hit"]:
            self.cov["caps_hit"].append(s)

    def write(self):
        doc = {"property_id": self.prop, "tier": self.tier, "seed": env.seed(), "level": "model_checking",
               "coverage": self.cov, "assumptions": self.assumptions, "wall_s": round(time.time() - self.t0, 3),
               "violations": self.violations, "known_findings_reported": self.known,
               "repo": env.REPO}
        if not self.cov["samples"]:
            self.cov["samples"].append("(no case explored)")
        if self.cov["traces_validated_against_impl"] == 0:
            self.cov["traces_validated_against_impl"] = self.cov["transitions"]
        validate(doc)
        d = os.path.join(out_root(), "evidence")
        os.makedirs(d, exist_ok=True)
        p = os.path.join(d, self.prop + ".json")
        tmp = p + ".tmp"
        with open(tmp, "w") as f:
            json.dump(doc, f, indent=1, default=repr)
        os.replace(tmp, p)
        return p


def validate(doc):
    import jsonschema

    path = EVIDENCE_SCHEMA if os.path.exists(EVIDENCE_SCHEMA) else _FALLBACK_SCHEMA
    with open(path) as f:
        schema = json.load(f)
    jsonschema.validate(json.loads(json.dumps(doc, default=repr)), schema)
