"""Exhaustive input families (shape E2).  A family member is a JSON-able *spec* from which the real object is built
through the public API; the spec doubles as the replay artefact of a violation.

spec = {"cls": "H" | "D" | "S", "nodes": [insertion order], "edges": [[id or None, members], ...],
        "nattr": {node: {...}}, "eattr": {pos: {...}}, "net": {...}}
For "D" members is [tail, head].  id None means automatic.  Edges are inserted one at a time in list order.
"""
import itertools


def subsets(labels, lo=1, hi=None):
    hi = len(labels) if hi is None else hi
    out = []
    for k in range(lo, hi + 1):
        out.extend(itertools.combinations(labels, k))
    return out


def edge_multisets(labels, max_edges, lo=1, hi=None, multi=True, min_edges=0):
    """All multisets (or sets, multi=False) of at most max_edges non-empty subsets of labels."""
    subs = subsets(labels, lo, hi)
    for m in range(min_edges, max_edges + 1):
        it = itertools.combinations_with_replacement(subs, m) if multi else itertools.combinations(subs, m)
        for es in it:
            yield es


def H(edges, nodes=None, ids=None, nattr=None, eattr=None, net=None):
    edges = [list(e) for e in edges]
    if nodes is None:
        nodes = []
        for e in edges:
            for n in e:
                if n not in nodes:
                    nodes.append(n)
    ids = list(ids) if ids is not None else [None] * len(edges)
    return {"cls": "H", "nodes": list(nodes), "edges": [[i, e] for i, e in zip(ids, edges)],
            "nattr": nattr or {}, "eattr": eattr or {}, "net": net or {}}


def D(edges, nodes=None, ids=None, nattr=None, eattr=None, net=None):
    edges = [[list(t), list(h)] for t, h in edges]
    if nodes is None:
        nodes = []
        for t, h in edges:
            for n in list(t) + list(h):
                if n not in nodes:
                    nodes.append(n)
    ids = list(ids) if ids is not None else [None] * len(edges)
    return {"cls": "D", "nodes": list(nodes), "edges": [[i, e] for i, e in zip(ids, edges)],
            "nattr": nattr or {}, "eattr": eattr or {}, "net": net or {}}


def S(simplices, nodes=None, ids=None, nattr=None, eattr=None, net=None):
    sp = H(simplices, nodes, ids, nattr, eattr, net)
    sp["cls"] = "S"
    return sp


def build(spec):
    import xgi

    cls = {"H": xgi.Hypergraph, "D": xgi.DiHypergraph, "S": xgi.SimplicialComplex}[spec["cls"]]
    obj = cls()
    for n in spec["nodes"]:
        obj.add_node(n)
        a = spec.get("nattr", {}).get(n, {})
        if a:
            obj.set_node_attributes({n: a})  # through a mapping: an attribute may be named like a parameter
    from .canon import fresh

    for pos, (i, m) in enumerate(spec["edges"]):
        attr = spec.get("eattr", {}).get(pos, {})
        # every occurrence of a label is its own (equal) object, as when labels are read from a file or computed per edge:
        # code that compares labels by identity works only on shared objects
        mem = ([fresh(x) for x in m[0]], [fresh(x) for x in m[1]]) if spec["cls"] == "D" else [fresh(x) for x in m]
        before = set(obj.edges) if (attr and i is None) else None
        if spec["cls"] == "S":
            if i is None:
                obj.add_simplex(mem)
            else:
                obj.add_simplex(mem, idx=i)
        elif i is None:
            obj.add_edge(mem)
        else:
            obj.add_edge(mem, idx=i)
        if attr:
            if i is None:
                new = [e for e in obj.edges if e not in before]
                eid = new[0] if new else None
                if spec["cls"] == "S" and new:
                    want = frozenset(mem)
                    eid = next((e for e in new if frozenset(obj.edges.members(e)) == want), new[0])
            else:
                eid = i
            if eid is not None and eid in obj.edges:
                obj.set_edge_attributes({eid: attr})
    for k, v in spec.get("net", {}).items():
        obj[k] = v
    return obj


def relabel(spec, node_map=None, edge_ids=None, edge_order=None, reverse_nodes=False, reverse_members=False):
    """A relabelled / re-ordered copy of an undirected spec.  node_map: dict old->new; edge_ids: list of new ids by
    position; edge_order: permutation of positions giving the insertion order."""
    nm = node_map or {}
    f = lambda n: nm.get(n, n)  # noqa: E731
    nodes = [f(n) for n in spec["nodes"]]
    if reverse_nodes:
        nodes = nodes[::-1]
    edges = []
    for pos, (i, m) in enumerate(spec["edges"]):
        mm = [f(n) for n in m]
        if reverse_members:
            mm = mm[::-1]
        edges.append([edge_ids[pos] if edge_ids is not None else i, mm])
    eattr = dict(spec.get("eattr", {}))
    if edge_order is not None:
        edges = [edges[p] for p in edge_order]
        eattr = {new: spec.get("eattr", {}).get(old, {}) for new, old in enumerate(edge_order) if old in spec.get("eattr", {})}
    return {"cls": spec["cls"], "nodes": nodes, "edges": edges,
            "nattr": {f(n): a for n, a in spec.get("nattr", {}).items()}, "eattr": eattr, "net": dict(spec.get("net", {}))}


# ---------------------------------------------------------------------------------------------------------------
# ready-made families


def undirected(labels, max_edges, isolated=True, multi=True, lo=1, hi=None, min_edges=0):
    """All hypergraphs over `labels` with at most max_edges edges; with isolated=True every label is a node even
    if in no edge, and each edge set is also yielded with only the covered labels as nodes."""
    for es in edge_multisets(labels, max_edges, lo, hi, multi, min_edges):
        covered = []
        for e in es:
            for n in e:
                if n not in covered:
                    covered.append(n)
        yield H(es, nodes=covered)
        if isolated and len(covered) < len(labels):
            yield H(es, nodes=list(labels))


def directed(labels, max_edges, isolated=False):
    subs = subsets(labels, 0)
    pairs = [(t, h) for t in subs for h in subs if t or h]
    for m in range(0, max_edges + 1):
        for es in itertools.combinations_with_replacement(pairs, m):
            yield D(es)
            if isolated:
                yield D(es, nodes=list(labels))


def complexes(labels, isolated=True):
    """Every simplicial complex on the vertex set `labels` (each exactly once): every downward-closed family of
    subsets of size >= 2, given by its maximal simplices; nodes = covered vertices, or all labels (isolated=True adds
    the variant with every label present)."""
    faces = subsets(labels, 2)
    seen = set()
    for mask in range(1 << len(faces)):
        gens = [frozenset(faces[i]) for i in range(len(faces)) if mask >> i & 1]
        # keep only antichains: a mask is canonical iff no generator contains another
        if any(a < b for a in gens for b in gens):
            continue
        key = frozenset(gens)
        if key in seen:
            continue
        seen.add(key)
        simp = [sorted(g) for g in sorted(gens, key=lambda g: (len(g), sorted(g)))]
        covered = sorted({n for g in gens for n in g})
        yield S(simp, nodes=covered)
        if isolated and len(covered) < len(labels):
            yield S(simp, nodes=list(labels))


def representatives():
    """A small hand-picked list of structurally diverse undirected specs (used where a per-input cost is high)."""
    R = []
    R.append(H([], nodes=[]))
    R.append(H([], nodes=[1, 2]))
    R.append(H([[1, 2]]))
    R.append(H([[1]]))
    R.append(H([[1, 2], [2, 3]]))
    R.append(H([[1, 2, 3]]))
    R.append(H([[1, 2, 3], [3, 4]]))
    R.append(H([[1, 2], [3, 4]]))
    R.append(H([[1, 2], [1, 2]]))
    R.append(H([[1, 2], [1, 2], [1, 2, 3]]))
    R.append(H([[1, 2, 3], [1, 2], [2, 3], [1, 3]]))
    R.append(H([[1, 2, 3], [2, 3, 4], [1, 4]]))
    R.append(H([[1], [2], [1, 2]]))
    R.append(H([[1, 2, 3, 4], [1, 2], [3]]))
    R.append(H([[1, 2], [2, 3]], nodes=[1, 2, 3, 4]))
    R.append(H([[3, 1], [2, 3]], nodes=[3, 1, 2]))
    R.append(H([[1, 2], [2, 3], [3, 1]], ids=[2, 0, 1]))
    R.append(H([[1, 2], [2, 3, 4]], ids=[10, 20]))
    R.append(H([[1, 2], [2, 3, 4]], ids=["x", "y"]))
    R.append(H([["a", "b"], ["b", "c", "d"]]))
    R.append(H([["a", "b"], ["b", "c"], ["c", "a"]], ids=["e1", "e0", "e2"], nodes=["c", "a", "b", "z"]))
    R.append(H([[1, 2], [2, 3]], eattr={0: {"weight": 2.0, "w": 1}, 1: {"weight": 0.5, "w": 3}}, nattr={1: {"c": "r"}},
               net={"name": "g"}))
    R.append(H([[1, 2, 3], [3, 4, 5], [5, 6]], eattr={0: {"weight": 1.0}}))
    R.append(H([[1, 2], [3, 4], [5]], nodes=[1, 2, 3, 4, 5, 6]))
    R.append(H([[0, 1], [1, 2], [2, 3], [3, 0]]))
    R.append(H([[0, 1, 2], [1, 2, 3], [2, 3, 4], [0, 4]]))
    return R


def with_empty_edge(spec):
    """The same network plus one empty edge (reachable through add_edge([]) or remove_empty=False)."""
    s = dict(spec)
    s["edges"] = list(spec["edges"]) + [[None, []]]
    return s


def detour(obj):
    """Edit a network *in place* so that it ends up with the same incidences, IDs and attributes but a different
    history: the first node is removed and re-inserted (it moves to the end of the node order), the first edge is
    removed and re-added under its old ID (it moves to the end of the edge order).  Checks evaluate their oracles once
    on the fresh object (which also warms any cache a function might keep per network object), apply the detour, and
    evaluate again: a result computed from a stale structure - same size, different content or order - disagrees
    with the brute-force oracle, which is always recomputed from members() of the current object."""
    cls = type(obj).__name__
    try:
        if cls == "SimplicialComplex":
            mem = obj.edges.members(dtype=dict)
            sets = list(mem.values())
            for e, m in mem.items():
                if not any(m < o for o in sets):
                    attrs = dict(obj.edges[e])
                    obj.remove_simplex_id(e)
                    obj.add_simplex(sorted(m, key=repr), idx=e, **attrs)
                    break
            return obj
        nodes = list(obj.nodes)
        if nodes:
            n = nodes[0]
            attrs = dict(obj.nodes[n])
            if cls == "DiHypergraph":
                i, o = obj.nodes.dimemberships(n)
                i, o = list(i), list(o)
                obj.remove_node(n, remove_empty=False)
                obj.add_node(n, **attrs)
                for e in o:
                    obj.add_node_to_edge(e, n, "in")
                for e in i:
                    obj.add_node_to_edge(e, n, "out")
            else:
                es = list(obj.nodes.memberships(n))
                obj.remove_node(n, remove_empty=False)
                obj.add_node(n, **attrs)
                for e in es:
                    obj.add_node_to_edge(e, n)
        edges = list(obj.edges)
        if edges:
            e = edges[0]
            attrs = dict(obj.edges[e])
            if cls == "DiHypergraph":
                t, h = obj.edges.dimembers(e)
                t, h = sorted(t, key=repr), sorted(h, key=repr)
                obj.remove_edge(e)
                obj.add_edge((t, h), idx=e, **attrs)
            else:
                m = sorted(obj.edges.members(e), key=repr)
                obj.remove_edge(e)
                obj.add_edge(m, idx=e, **attrs)
    except Exception:  # noqa: BLE001 - a detour that cannot be applied is simply skipped
        pass
    return obj


def morph(obj):
    """Edit a network in place into a *different* network with the same number of nodes and edges (a node is added to
    an existing edge it was not in, or - if every edge is full - removed from one; for complexes a maximal two-node
    simplex is re-pointed to a non-adjacent pair under the same ID).  Used after `detour`: anything a function
    remembered about this object under a key such as (number of nodes, number of edges) is now wrong, while the
    oracles are recomputed from the current members().  Returns True if the structure changed."""
    cls = type(obj).__name__
    try:
        nodes = list(obj.nodes)
        if cls == "SimplicialComplex":
            mem = obj.edges.members(dtype=dict)
            sets = {frozenset(m) for m in mem.values()}
            for e, m in mem.items():
                if len(m) == 2 and not any(frozenset(m) < o for o in sets):
                    a = sorted(m, key=repr)[0]
                    for c in nodes:
                        if c != a and frozenset((a, c)) not in sets:
                            attrs = dict(obj.edges[e])
                            obj.remove_simplex_id(e)
                            obj.add_simplex([a, c], idx=e, **attrs)
                            return True
            return False
        edges = list(obj.edges)
        for e in edges:
            if cls == "DiHypergraph":
                t, h = obj.edges.dimembers(e)
                for n in nodes:
                    if n not in t:
                        obj.add_node_to_edge(e, n, "in")
                        return True
            else:
                m = obj.edges.members(e)
                for n in nodes:
                    if n not in m:
                        obj.add_node_to_edge(e, n)
                        return True
        for e in edges:
            if cls == "Hypergraph":
                m = sorted(obj.edges.members(e), key=repr)
                if len(m) >= 2:
                    obj.remove_node_from_edge(e, m[-1], remove_empty=False)
                    return True
    except Exception:  # noqa: BLE001
        pass
    return False


def grow(obj):
    """Add one new edge / simplex (fresh automatic ID) joining existing nodes in a way not present yet, or a new node
    attached to an existing one.  Third stage after `detour` and `morph`: the ID sets themselves change."""
    import itertools

    cls = type(obj).__name__
    try:
        nodes = list(obj.nodes)
        if cls == "DiHypergraph":
            if len(nodes) >= 2:
                obj.add_edge(([nodes[-1]], [nodes[0]]))
            else:
                obj.add_edge((["g1"], ["g2"]))
            return True
        present = {frozenset(m) for m in obj.edges.members()}
        for k in (2, 3):
            for c in itertools.combinations(nodes, k):
                if frozenset(c) not in present:
                    (obj.add_simplex if cls == "SimplicialComplex" else obj.add_edge)(list(c))
                    return True
        new = (max(nodes) + 1) if nodes and all(isinstance(n, int) for n in nodes) else "g%d" % len(nodes)
        (obj.add_simplex if cls == "SimplicialComplex" else obj.add_edge)([nodes[0], new] if nodes else [new, new + "x"])
        return True
    except Exception:  # noqa: BLE001
        return False


def rename(obj):
    """Replace one node by a node with a *new label* in place (same number of nodes and edges, same shape, another node
    set): the last node is removed and a fresh label takes over its memberships.  Fourth stage of the evaluation
    protocol: anything remembered about this object per node label - positions, index maps - under a key that only
    counts nodes is now stale.  Returns the new label or None."""
    cls = type(obj).__name__
    try:
        nodes = list(obj.nodes)
        if not nodes:
            return None
        old = nodes[-1]
        if all(isinstance(n, int) and not isinstance(n, bool) for n in nodes):
            new = max(nodes) + 7
        elif all(isinstance(n, str) for n in nodes):
            new = "zz%d" % len(nodes)
        else:
            new = ("renamed", len(nodes))
        attrs = dict(obj.nodes[old])
        if cls == "SimplicialComplex":
            mem = obj.edges.members(dtype=dict)
            sets = [frozenset(m) for m in mem.values()]
            tops = [(e, m) for e, m in mem.items() if old in m and not any(frozenset(m) < o for o in sets)]
            obj.remove_node(old)
            obj.add_node(new, **attrs)
            for e, m in tops:
                obj.add_simplex([new if x == old else x for x in sorted(m, key=repr)])
            return new
        if cls == "DiHypergraph":
            i, o = obj.nodes.dimemberships(old)
            i, o = list(i), list(o)
            obj.remove_node(old, remove_empty=False)
            obj.add_node(new, **attrs)
            for e in o:
                obj.add_node_to_edge(e, new, "in")
            for e in i:
                obj.add_node_to_edge(e, new, "out")
            return new
        es = list(obj.nodes.memberships(old))
        obj.remove_node(old, remove_empty=False)
        obj.add_node(new, **attrs)
        for e in es:
            obj.add_node_to_edge(e, new)
        return new
    except Exception:  # noqa: BLE001
        return None


def wide():
    """A few networks with more than ten nodes and more than ten edges: positions 10, 11, ... exist, so anything that
    orders or keys nodes / edges by the *text* of a number ('10' < '2') or assumes one-digit positions goes wrong here and
    nowhere in the small families.  Edges join low positions with positions >= 10 in both orders."""
    pairs = [[0, 1], [2, 10], [3, 11], [10, 11], [1, 2, 10], [4, 5], [5, 6], [6, 7], [7, 8], [8, 9], [9, 11], [0, 11, 3]]
    a = H(pairs, nodes=list(range(12)))
    b = relabel(a, node_map={i: "n%d" % i for i in range(12)}, edge_ids=["e%d" % i for i in range(len(pairs))])
    # integers above 256 are not shared objects in CPython: an ID named by value is equal to, not identical with, the stored one
    c = relabel(a, node_map={i: 1000 - 7 * i for i in range(12)}, edge_ids=[500 - 3 * i for i in range(len(pairs))], reverse_nodes=True)
    return [a, b, c]


def big():
    """Networks in which a *count* exceeds 127 and 255: one edge with 130 members, two nodes sharing 130 (multi-)edges.  Counts are what matrix entries, products of incidence matrices and Laplacian diagonals hold;
    a narrow integer type is exact on every small network and wraps here."""
    a = H([list(range(130)), [0, 1], [1, 2, 3]], nodes=list(range(130)))
    b = H([[0, 1]] * 130 + [[1, 2]], nodes=[0, 1, 2])
    return [a, b]


def big_complexes():
    """A star with 130 leaves plus one filled triangle (vertex 0 has 130 cofaces), and 130 triangles on one edge."""
    star = S([[0, i] for i in range(1, 131)] + [[1, 2, 0]], nodes=list(range(131)))
    book = S([[0, 1, i] for i in range(2, 132)], nodes=list(range(132)))
    return [star, book]


def exotic_label_maps(nodes):
    """Node relabellings to label *types* other than int / str: integer-valued floats (equal to ints as dict keys),
    proper floats, tuples, and a mix of int, float, str and tuple."""
    ns = list(nodes)
    out = [("integral floats", {n: float(i) for i, n in enumerate(ns)}),
           ("floats", {n: i + 0.5 for i, n in enumerate(ns)}),
           ("tuples", {n: (i, "t") for i, n in enumerate(ns)}),
           ("mixed types", {n: [i, float(i) + 0.25, "s%d" % i, (i,)][i % 4] for i, n in enumerate(ns)})]
    return out
