"""Canonical state keys (for de-duplication) and public-API snapshots (for oracles).

`state_key(obj)` encodes *all* instance state generically from vars(obj) (DESIGN.md 3.2).  Equal keys imply equal
tables, counter and frozen shadows, hence equal futures.  An attribute of a type we do not know how to encode is
a hard harness error (exit 2), never a silent merge.
"""
import copy
import hashlib
import itertools
import types

import numpy as np


class CannotCanonicalise(Exception):
    pass


_COUNT = type(itertools.count())


def _scalar(v):
    if v is None:
        return ("N",)
    if isinstance(v, bool):
        return ("b", v)
    if isinstance(v, int):
        return ("i", v)
    if isinstance(v, float):
        return ("f", repr(v))
    if isinstance(v, str):
        return ("s", v)
    if isinstance(v, bytes):
        return ("y", v)
    if isinstance(v, np.generic):
        return ("np", type(v).__name__, repr(v.item()))
    return None


def canon(v, _depth=0):
    s = _scalar(v)
    if s is not None:
        return s
    if _depth > 12:
        raise CannotCanonicalise("nesting too deep")
    if isinstance(v, dict):
        return ("d",) + tuple((canon(k, _depth + 1), canon(x, _depth + 1)) for k, x in v.items())
    if isinstance(v, (set, frozenset)):
        return ("S" if isinstance(v, set) else "F",) + tuple(canon(x, _depth + 1) for x in v)
    if isinstance(v, (list, tuple)):
        return ("l" if isinstance(v, list) else "t",) + tuple(canon(x, _depth + 1) for x in v)
    if isinstance(v, _COUNT):
        return ("count", next(copy.copy(v)))
    if isinstance(v, np.ndarray):
        return ("a", v.shape, v.dtype.str, v.tobytes())
    if isinstance(v, (types.FunctionType, types.MethodType, types.BuiltinFunctionType)):
        return ("fn", getattr(v, "__qualname__", repr(v)))
    raise CannotCanonicalise(f"unknown type {type(v)!r}")


def _is_view(v):
    # view objects only hold references back to the tables
    return type(v).__name__.endswith("View") and hasattr(v, "_id_dict")


def state_key(obj):
    items = []
    for k, v in vars(obj).items():
        if _is_view(v):
            continue
        items.append((k, canon(v)))
    return (type(obj).__name__, tuple(items))


def digest(key):
    return hashlib.blake2b(repr(key).encode(), digest_size=16).digest()


def next_uid(obj):
    """Next automatic edge id (peeked on a copy; the counter is not disturbed)."""
    return next(copy.copy(obj._edge_uid))


# ---------------------------------------------------------------------------------------------------------------
# Public-API snapshots


def is_directed(obj):
    return type(obj).__name__ == "DiHypergraph"


def snapshot(obj):
    """Observable network through the public API: ordered ids, members (or tail/head), attributes.

    Raises whatever the public API raises (callers that judge post-error states catch and report)."""
    nodes = list(obj.nodes)
    edges = list(obj.edges)
    if is_directed(obj):
        mem = {e: (frozenset(t), frozenset(h)) for e, (t, h) in obj.edges.dimembers(dtype=dict).items()}
    else:
        mem = {e: frozenset(m) for e, m in obj.edges.members(dtype=dict).items()}
    nattr = {n: copy.deepcopy(dict(obj.nodes[n])) for n in nodes}
    eattr = {e: copy.deepcopy(dict(obj.edges[e])) for e in edges}
    net = copy.deepcopy(dict(obj._net_attr))
    # the same relation as the nodes report it: two networks are the same only if both sides agree
    try:
        if is_directed(obj):
            ms = {n: tuple(frozenset(x) for x in obj.nodes.dimemberships(n)) for n in nodes}
        else:
            ms = {n: frozenset(obj.nodes.memberships(n)) for n in nodes}
    except Exception as e:  # noqa: BLE001 - a corrupted node table: reported as a difference by every comparison
        ms = {"unreadable": type(e).__name__}
    return {"cls": type(obj).__name__, "nodes": nodes, "edges": edges, "members": mem, "nattr": nattr,
            "eattr": eattr, "net": net, "memberships": ms}


def memberships_from_members(cls, nodes, members):
    """What the node side must report, given the edge side (used for reference-model states, which keep one table)."""
    if cls == "DiHypergraph":
        out = {n: [set(), set()] for n in nodes}
        for e, (t, h) in members.items():
            for n in t:
                out.setdefault(n, [set(), set()])[1].add(e)  # tail member -> out-membership
            for n in h:
                out.setdefault(n, [set(), set()])[0].add(e)  # head member -> in-membership
        return {n: (frozenset(a), frozenset(b)) for n, (a, b) in out.items()}
    out = {n: set() for n in nodes}
    for e, m in members.items():
        for n in m:
            out.setdefault(n, set()).add(e)
    return {n: frozenset(v) for n, v in out.items()}


def snap_equal(a, b, ordered=True):
    """Equality of two snapshots; with ordered=False node/edge order is ignored (mapping equality)."""
    if a["cls"] != b["cls"]:
        return False
    if ordered:
        if a["nodes"] != b["nodes"] or a["edges"] != b["edges"]:
            return False
    else:
        if sorted(map(repr, a["nodes"])) != sorted(map(repr, b["nodes"])):
            return False
        if sorted(map(repr, a["edges"])) != sorted(map(repr, b["edges"])):
            return False
    return (a["members"] == b["members"] and a["nattr"] == b["nattr"] and a["eattr"] == b["eattr"] and a["net"] == b["net"]
            and a.get("memberships") == b.get("memberships"))


def snap_diff(a, b):
    out = []
    for k in ("cls", "nodes", "edges", "members", "nattr", "eattr", "net", "memberships"):
        if a.get(k) != b.get(k):
            out.append(f"{k}: {a.get(k)!r} != {b.get(k)!r}")
    return "; ".join(out)[:600]


def deep_snapshot(obj):
    """Everything C07/C08/C18 compare before/after: ordered ids, members in iteration order, attributes,
    next automatic id, frozen flag.  Built from the instance state so that iteration order is included."""
    return state_key(obj)


def jsonable(v):
    """Best-effort JSON rendering of arbitrary values for replay files / samples."""
    if isinstance(v, (str, int, float, bool)) or v is None:
        return v
    if isinstance(v, dict):
        return {repr(k) if not isinstance(k, str) else k: jsonable(x) for k, x in v.items()}
    if isinstance(v, (list, tuple)):
        return [jsonable(x) for x in v]
    if isinstance(v, (set, frozenset)):
        return sorted((jsonable(x) for x in v), key=repr)
    return repr(v)


def fresh(x):
    """An object equal to x but (whenever the interpreter allows) not identical to it: what a caller who *names* an ID
    passes, as opposed to one who iterates over the network's own views.  Small ints and interned strings stay shared."""
    import pickle

    try:
        y = pickle.loads(pickle.dumps(x))
    except Exception:  # noqa: BLE001
        return x
    if isinstance(x, str) and y is x:
        y = "".join(list(x))
    return y if y == x and hash(y) == hash(x) else x

