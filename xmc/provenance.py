"""Every way of obtaining a network (C04): constructor input types, from_* converters, read_* functions (files in a
per-run scratch directory), small instances of the generators, copy / pickle / relabelling / derived networks.

`PROV` maps a name to a zero-argument callable returning a fresh network.  The names are used as `init`
expressions of the explorer: "prov('H:from_incidence_matrix')".
"""
import atexit
import json
import os
import pickle
import shutil
import tempfile

_TMP = None
_OWNER = None


def tmpdir():
    global _TMP, _OWNER
    if _TMP is None:
        _TMP = tempfile.mkdtemp(prefix="xgiverif-")
        _OWNER = os.getpid()
        atexit.register(_cleanup)
    return _TMP


def _cleanup():
    if _TMP and _OWNER == os.getpid():
        shutil.rmtree(_TMP, ignore_errors=True)


def _path(name):
    return os.path.join(tmpdir(), f"{os.getpid()}-{name}")


def _write(name, text):
    p = _path(name)
    with open(p, "w") as f:
        f.write(text)
    return p


def build():
    import networkx as nx
    import numpy as np
    import pandas as pd
    import scipy.sparse as sp

    import xgi

    P = {}
    Hy, Di, SC = xgi.Hypergraph, xgi.DiHypergraph, xgi.SimplicialComplex
    inc = np.array([[1, 0], [1, 1], [0, 1]])

    def baseH():
        H = Hy()
        H.add_nodes_from([(1, {"c": "r"}), 2, 3, 4])
        H.add_edges_from({2: [1, 2], 0: [2, 3]})
        H.add_edge([3], w=2)
        H["name"] = "n"
        return H

    def baseD():
        D = Di()
        D.add_nodes_from([1, 2, 3])
        D.add_edges_from({2: ([1], [2]), 0: ([2, 3], [1])})
        D.add_edge(([3], []), w=2)
        return D

    def baseS():
        S = SC()
        S.add_simplices_from({5: [1, 2, 3], 0: [3, 4]})
        return S

    # ---- Hypergraph
    P["H:empty"] = lambda: Hy()
    P["H:list"] = lambda: Hy([[1, 2], [2, 3]])
    P["H:dict0"] = lambda: Hy({0: [1, 2]})
    P["H:dict-decreasing"] = lambda: Hy({2: [1, 2], 0: [2, 3]})
    P["H:dict-mixed"] = lambda: Hy({"a": [1, 2], 1: [2]})
    P["H:dataframe"] = lambda: Hy(pd.DataFrame([[1, 0], [2, 0], [2, 1]]))
    P["H:ndarray"] = lambda: Hy(inc)
    P["H:csr"] = lambda: Hy(sp.csr_array(inc))
    P["H:coo"] = lambda: Hy(sp.coo_array(inc))
    P["H:lil"] = lambda: Hy(sp.lil_array(inc))
    P["H:csc_matrix"] = lambda: Hy(sp.csc_matrix(inc))
    P["H:Hypergraph"] = lambda: Hy(baseH())
    P["H:SimplicialComplex"] = lambda: Hy(baseS())
    P["H:DiHypergraph"] = lambda: Hy(baseD())
    P["H:add_node_to_edge"] = lambda: _h_ante()
    P["H:idx0"] = lambda: _h_idx0()
    P["H:from_hyperedge_list"] = lambda: xgi.from_hyperedge_list([[1, 2], [3]])
    P["H:from_hyperedge_dict"] = lambda: xgi.from_hyperedge_dict({3: [1, 2], 1: [3]})
    P["H:from_bipartite_edgelist"] = lambda: xgi.from_bipartite_edgelist([(1, 0), (2, 0), (2, 1), (3, 1)])
    P["H:from_bipartite_edgelist-str"] = lambda: xgi.from_bipartite_edgelist([(1, "a"), (2, "a"), (2, 0)])
    P["H:from_incidence_matrix"] = lambda: xgi.from_incidence_matrix(inc)
    P["H:from_incidence_matrix-labels"] = lambda: xgi.from_incidence_matrix(inc, nodelabels=["a", "b", "c"], edgelabels=[3, 0])
    P["H:from_bipartite_graph"] = lambda: xgi.from_bipartite_graph(_bip())
    P["H:from_bipartite_graph-dual"] = lambda: xgi.from_bipartite_graph(_bip(), dual=True)
    P["H:from_bipartite_pandas_dataframe"] = lambda: xgi.from_bipartite_pandas_dataframe(
        pd.DataFrame({"n": [1, 2, 2], "e": [0, 0, 1]}), node_column="n", edge_column="e")
    P["H:from_hypergraph_dict"] = lambda: xgi.from_hypergraph_dict(xgi.to_hypergraph_dict(baseH()), nodetype=int, edgetype=int)
    P["H:from_hypergraph_dict-str"] = lambda: xgi.from_hypergraph_dict(xgi.to_hypergraph_dict(baseH()))
    P["H:from_hif_dict"] = lambda: xgi.from_hif_dict(xgi.to_hif_dict(baseH()))
    P["H:from_hif_dict-int"] = lambda: xgi.from_hif_dict(xgi.to_hif_dict(baseH()), nodetype=int, edgetype=int)
    P["H:from_max_simplices"] = lambda: xgi.from_max_simplices(baseS())

    def rd_edgelist():
        return xgi.read_edgelist(_write("el.txt", "1 2\n2 3 4\n"), nodetype=int)

    def rd_bip():
        return xgi.read_bipartite_edgelist(_write("bel.txt", "1 0\n2 0\n2 1\n"), nodetype=int, edgetype=int)

    def rd_bip_dual():
        return xgi.read_bipartite_edgelist(_write("beld.txt", "0 1\n0 2\n1 2\n"), nodetype=int, edgetype=int, dual=True)

    def rd_inc():
        return xgi.read_incidence_matrix(_write("inc.txt", "1 0\n1 1\n0 1\n"))

    def rd_json():
        p = _path("h.json")
        xgi.write_json(baseH(), p)
        return xgi.read_json(p, nodetype=int, edgetype=int)

    def rd_hif():
        p = _path("h.hif.json")
        xgi.write_hif(baseH(), p)
        return xgi.read_hif(p, nodetype=int, edgetype=int)

    def rd_hif_coll():
        d = _path("coll")
        os.makedirs(d, exist_ok=True)
        xgi.write_hif_collection({"a": baseH(), "b": Hy({3: [1, 2], 0: [2]})}, d, collection_name="c")
        return xgi.read_hif_collection(os.path.join(d, "c_collection_information.json"), nodetype=int, edgetype=int)["a"]

    P["H:read_hif_collection"] = rd_hif_coll
    P["H:read_edgelist"] = rd_edgelist
    P["H:read_bipartite_edgelist"] = rd_bip
    P["H:read_bipartite_edgelist-dual"] = rd_bip_dual
    P["H:read_incidence_matrix"] = rd_inc
    P["H:read_json"] = rd_json
    P["H:read_hif"] = rd_hif
    # generators
    P["H:complete_hypergraph"] = lambda: xgi.complete_hypergraph(3, max_order=2)
    P["H:trivial_hypergraph"] = lambda: xgi.trivial_hypergraph(2)
    P["H:empty_hypergraph"] = lambda: xgi.empty_hypergraph()
    P["H:ring_lattice"] = lambda: xgi.ring_lattice(5, 2, 2, 0)
    P["H:star_clique"] = lambda: xgi.star_clique(3, 3, 2)
    P["H:sunflower"] = lambda: xgi.sunflower(2, 1, 3)
    P["H:random_hypergraph"] = lambda: xgi.random_hypergraph(4, [0.6, 0.4], seed=1)
    P["H:fast_random_hypergraph"] = lambda: xgi.fast_random_hypergraph(4, [0.6, 0.4], seed=1)
    P["H:chung_lu_hypergraph"] = lambda: xgi.chung_lu_hypergraph({0: 1, 1: 2, 2: 1}, {0: 2, 1: 2}, seed=1)
    P["H:dcsbm_hypergraph"] = lambda: xgi.dcsbm_hypergraph({0: 1, 1: 2, 2: 1}, {0: 2, 1: 2}, {0: 0, 1: 0, 2: 1},
                                                           {0: 0, 1: 1}, np.array([[2, 1], [1, 2]]), seed=1)
    P["H:watts_strogatz_hypergraph"] = lambda: xgi.watts_strogatz_hypergraph(6, 2, 2, 0, 0.5, seed=1)
    P["H:uniform_hypergraph_configuration_model"] = lambda: xgi.uniform_hypergraph_configuration_model({0: 1, 1: 2, 2: 1, 3: 2}, 2, seed=1)
    P["H:uniform_erdos_renyi_hypergraph"] = lambda: xgi.uniform_erdos_renyi_hypergraph(4, 2, 0.5, seed=1)
    P["H:uniform_HSBM"] = lambda: xgi.uniform_HSBM(4, 2, np.array([[0.9, 0.3], [0.3, 0.9]]), [2, 2], seed=1)
    P["H:uniform_HPPM"] = lambda: xgi.uniform_HPPM(4, 2, 2, 0.9, seed=1)
    P["H:complement"] = lambda: xgi.complement(Hy([[1, 2], [2, 3]]))
    P["H:shuffle_hyperedges"] = lambda: xgi.shuffle_hyperedges(Hy([[1, 2], [2, 3, 4]]), 1, 0.9, seed=1)
    P["H:node_swap"] = lambda: xgi.node_swap(Hy([[1, 2], [2, 3, 4]]), 1, 4)
    # derived
    P["H:copy"] = lambda: baseH().copy()
    P["H:copy-of-ante"] = lambda: _h_ante().copy()
    P["H:pickle"] = lambda: pickle.loads(pickle.dumps(baseH()))
    P["H:convert_labels_to_integers"] = lambda: xgi.convert_labels_to_integers(Hy({"b": ["x", "y"], "a": ["y", "z"]}))
    P["H:cleanup"] = lambda: baseH().cleanup(in_place=False)
    P["H:cleanup-norelabel"] = lambda: baseH().cleanup(relabel=False, in_place=False)
    P["H:dual"] = lambda: baseH().dual()
    P["H:lshift"] = lambda: baseH() << Hy({7: [1, 9]})
    P["H:subhypergraph-copy"] = lambda: xgi.subhypergraph(baseH(), nodes=[1, 2, 3]).copy()
    P["H:cut_to_order"] = lambda: xgi.cut_to_order(baseH(), 1)
    P["H:largest_connected_hypergraph"] = lambda: xgi.largest_connected_hypergraph(baseH())
    P["H:to_hypergraph"] = lambda: xgi.to_hypergraph({3: [1, 2], 0: [2]})
    P["H:merge-new"] = lambda: _h_merge()

    # ---- DiHypergraph
    P["D:empty"] = lambda: Di()
    P["D:list"] = lambda: Di([([1], [2]), ([2, 3], [1])])
    P["D:dict0"] = lambda: Di({0: ([1], [2])})
    P["D:dict-decreasing"] = lambda: Di({2: ([1], [2]), 0: ([2], [3])})
    P["D:DiHypergraph"] = lambda: Di(baseD())
    P["D:add_node_to_edge"] = lambda: _d_ante()
    P["D:idx0"] = lambda: _d_idx0()
    P["D:from_bipartite_edgelist"] = lambda: _try(lambda: xgi.from_bipartite_edgelist([(1, 0, "in"), (2, 0, "out"), (2, 1, "in")]))
    P["D:from_bipartite_graph"] = lambda: xgi.from_bipartite_graph(_dibip())
    P["D:from_hif_dict"] = lambda: xgi.from_hif_dict(xgi.to_hif_dict(baseD()))
    P["D:from_hif_dict-int"] = lambda: xgi.from_hif_dict(xgi.to_hif_dict(baseD()), nodetype=int, edgetype=int)
    P["D:to_dihypergraph"] = lambda: xgi.to_dihypergraph(baseD())
    P["D:empty_dihypergraph"] = lambda: xgi.empty_dihypergraph()

    def rd_hif_d():
        p = _path("d.hif.json")
        xgi.write_hif(baseD(), p)
        return xgi.read_hif(p, nodetype=int, edgetype=int)

    P["D:read_hif"] = rd_hif_d
    P["D:copy"] = lambda: baseD().copy()
    P["D:copy-of-ante"] = lambda: _d_ante().copy()
    P["D:pickle"] = lambda: pickle.loads(pickle.dumps(baseD()))
    P["D:convert_labels_to_integers"] = lambda: xgi.convert_labels_to_integers(Di({"b": (["x"], ["y"]), "a": (["y"], ["z"])}))
    P["D:cleanup"] = lambda: baseD().cleanup(in_place=False)
    P["D:cleanup-norelabel"] = lambda: baseD().cleanup(relabel=False, in_place=False)

    # ---- SimplicialComplex
    P["S:empty"] = lambda: SC()
    P["S:list"] = lambda: SC([[1, 2, 3], [3, 4]])
    P["S:dict-decreasing"] = lambda: SC({5: [1, 2], 0: [2, 3]})
    P["S:dict0"] = lambda: SC({0: [1, 2, 3]})
    P["S:SimplicialComplex"] = lambda: SC(baseS())
    P["S:Hypergraph"] = lambda: SC(Hy({2: [1, 2, 3], 0: [3, 4]}))
    P["S:idx0"] = lambda: _s_idx0()
    P["S:from_simplex_dict"] = lambda: xgi.from_simplex_dict({3: [1, 2], 0: [2, 3]})
    P["S:from_hif_dict"] = lambda: xgi.from_hif_dict(xgi.to_hif_dict(baseS()))
    P["S:from_hif_dict-int"] = lambda: xgi.from_hif_dict(xgi.to_hif_dict(baseS()), nodetype=int, edgetype=int)
    P["S:to_simplicial_complex"] = lambda: xgi.to_simplicial_complex([[1, 2, 3]])
    P["S:dataframe"] = lambda: SC(pd.DataFrame([[1, 0], [2, 0], [2, 1], [3, 1]]))
    P["S:empty_simplicial_complex"] = lambda: xgi.empty_simplicial_complex()

    def rd_hif_s():
        p = _path("s.hif.json")
        xgi.write_hif(baseS(), p)
        return xgi.read_hif(p, nodetype=int, edgetype=int)

    P["S:read_hif"] = rd_hif_s
    P["S:flag_complex"] = lambda: xgi.flag_complex(nx.complete_graph(3))
    P["S:flag_complex_d2"] = lambda: xgi.flag_complex_d2(nx.complete_graph(3))
    P["S:random_simplicial_complex"] = lambda: xgi.random_simplicial_complex(4, [0.7, 0.5], seed=1)
    P["S:random_flag_complex"] = lambda: xgi.random_flag_complex(4, 0.8, seed=1)
    P["S:random_flag_complex_d2"] = lambda: xgi.random_flag_complex_d2(4, 0.8, seed=1)
    P["S:copy"] = lambda: baseS().copy()
    P["S:pickle"] = lambda: pickle.loads(pickle.dumps(baseS()))
    P["S:convert_labels_to_integers"] = lambda: xgi.convert_labels_to_integers(SC([["x", "y", "z"]]))
    P["S:cleanup"] = lambda: baseS().cleanup(in_place=False)
    P["S:k_skeleton"] = lambda: xgi.k_skeleton(baseS(), 1)
    P["S:cut_to_order"] = lambda: xgi.cut_to_order(baseS(), 1)

    # ---- explicit IDs that are integers by value but not by type (numpy integer scalars, as produced by IDs taken from
    # an array; integer-valued floats), directly and through every copying / serialising route
    def npH():
        H = Hy()
        H.add_edges_from({np.int64(0): [1, 2], np.int64(1): [2, 3]})
        return H

    def flH():
        H = Hy()
        H.add_edge([1, 2], idx=0.0)
        H.add_edge([2, 3], idx=1.0)
        return H

    def npD():
        D = Di()
        D.add_edges_from({np.int64(0): ([1], [2]), np.int64(1): ([2, 3], [1])})
        return D

    def npS():
        S = SC()
        S.add_simplices_from({np.int64(0): [1, 2], np.int64(1): [2, 3]})
        return S

    for tag, mk, cls in (("H", npH, Hy), ("D", npD, Di), ("S", npS, SC)):
        P[f"{tag}:npids"] = mk
        P[f"{tag}:npids-copy"] = lambda mk=mk: mk().copy()
        P[f"{tag}:npids-pickle"] = lambda mk=mk: pickle.loads(pickle.dumps(mk()))
        P[f"{tag}:npids-ctor"] = lambda mk=mk, cls=cls: cls(mk())
        P[f"{tag}:npids-cleanup-norelabel"] = lambda mk=mk: mk().cleanup(relabel=False, in_place=False)
        P[f"{tag}:npids-hif"] = lambda mk=mk: xgi.from_hif_dict(xgi.to_hif_dict(mk()))
    P["H:floatids-copy"] = lambda: flH().copy()
    P["H:floatids-pickle"] = lambda: pickle.loads(pickle.dumps(flH()))
    P["H:floatids-ctor"] = lambda: Hy(flH())
    P["H:npids-subhypergraph-copy"] = lambda: xgi.subhypergraph(npH(), nodes=[1, 2, 3]).copy()
    P["H:npids-dual-dual"] = lambda: npH().dual().dual()
    P["H:from_incidence_matrix-nplabels"] = lambda: xgi.from_incidence_matrix(inc, edgelabels=np.arange(2))
    P["H:npids-from_hyperedge_dict"] = lambda: xgi.from_hyperedge_dict(xgi.to_hyperedge_dict(npH()))
    P["H:npids-bipartite-graph"] = lambda: xgi.from_bipartite_graph(xgi.to_bipartite_graph(npH()))

    # ---- existing edges that are *empty* under the IDs the adders will ask for (an empty member set is falsy)
    def emptyH():
        H = Hy()
        H.add_nodes_from([1, 2, 3])
        H.add_edge([], idx=0, w=1)
        H.add_edge([1, 2], idx=2)
        H.remove_node_from_edge(2, 1, remove_empty=False)
        H.remove_node_from_edge(2, 2, remove_empty=False)
        H.add_edge([], idx="e")
        H.add_edge([2, 3])
        return H

    def emptyD():
        D = Di()
        D.add_nodes_from([1, 2, 3])
        D.add_edge(([], []), idx=0, w=1)
        D.add_edge(([], []), idx=2)
        D.add_edge(([], []), idx="e")
        D.add_edge(([2], [3]))
        return D

    # an empty edge whose ID is the largest integer ID, through every reader / converter that creates edges itself
    def lastEmptyH():
        H = Hy()
        H.add_nodes_from([1, 2, 3])
        H.add_edge([1, 2], idx=0)
        H.add_edge([], idx=3, w=7)
        return H

    def lastEmptyD():
        D = Di()
        D.add_nodes_from([1, 2, 3])
        D.add_edge(([1], [2]), idx=0)
        D.add_edge(([], []), idx=3, w=7)
        return D

    def _hif_file(X, name):
        p_ = _path(name)
        xgi.write_hif(X, p_)
        return xgi.read_hif(p_, nodetype=int, edgetype=int)

    P["H:hif-empty-last"] = lambda: xgi.from_hif_dict(xgi.to_hif_dict(lastEmptyH()))
    P["H:read_hif-empty-last"] = lambda: _hif_file(lastEmptyH(), "le.hif.json")
    P["H:dict-empty-last"] = lambda: xgi.from_hypergraph_dict(xgi.to_hypergraph_dict(lastEmptyH()), nodetype=int, edgetype=int)
    P["H:copy-empty-last"] = lambda: lastEmptyH().copy()
    P["H:ctor-empty-last"] = lambda: Hy(lastEmptyH())
    P["D:hif-empty-last"] = lambda: xgi.from_hif_dict(xgi.to_hif_dict(lastEmptyD()))
    P["D:read_hif-empty-last"] = lambda: _hif_file(lastEmptyD(), "led.hif.json")
    P["D:copy-empty-last"] = lambda: lastEmptyD().copy()
    P["D:ctor-empty-last"] = lambda: Di(lastEmptyD())
    P["H:empty-edges"] = emptyH
    P["H:empty-edges-copy"] = lambda: emptyH().copy()
    P["H:dual-of-isolates"] = lambda: Hy([[1, 2]]).dual() if False else _dual_iso()
    P["D:empty-edges"] = emptyD

    def _dual_iso():
        H = Hy()
        H.add_nodes_from([0, 1, 2])
        H.add_edge([2, 7], idx=5)
        return H.dual()  # nodes 0 and 1 are isolated: their dual edges 0 and 1 are empty

    def _h_ante():
        H = Hy()
        H.add_node_to_edge(0, 1)
        H.add_node_to_edge(0, 2)
        H.add_node_to_edge(1, 2)
        return H

    def _h_idx0():
        H = Hy()
        H.add_edge([1, 2], idx=0)
        return H

    def _h_merge():
        H = Hy([[1, 2], [1, 2], [3]])
        H.merge_duplicate_edges(rename="new")
        return H

    def _d_ante():
        D = Di()
        D.add_node_to_edge(0, 1, "in")
        D.add_node_to_edge(0, 2, "out")
        D.add_node_to_edge(1, 2, "in")
        return D

    def _d_idx0():
        D = Di()
        D.add_edge(([1], [2]), idx=0)
        return D

    def _s_idx0():
        S = SC()
        S.add_simplex([1, 2], idx=0)
        return S

    def _bip():
        G = nx.Graph()
        G.add_nodes_from([1, 2, 3], bipartite=0)
        G.add_nodes_from([0, 10], bipartite=1)
        G.add_edges_from([(1, 0), (2, 0), (2, 10), (3, 10)])
        return G

    def _dibip():
        G = nx.DiGraph()
        G.add_nodes_from([1, 2, 3], bipartite=0)
        G.add_nodes_from([0, 10], bipartite=1)
        G.add_edges_from([(1, 0), (0, 2), (2, 10), (10, 3)])
        return G

    def _try(f):
        return f()

    return P


_PROV = None


def prov(name):
    global _PROV
    if _PROV is None:
        _PROV = build()
    return _PROV[name]()


def names(prefix):
    global _PROV
    if _PROV is None:
        _PROV = build()
    return [k for k in _PROV if k.startswith(prefix)]


def uncovered_producers():
    """Public xgi callables whose name says they produce a network but which the catalogue above does not use
    (reported in the C04 evidence so that a new converter / reader / generator is noticed)."""
    import inspect
    import re

    import xgi

    src = open(__file__).read()
    pat = re.compile(r"(from_|read_|to_hypergraph|to_dihypergraph|to_simplicial|load_|random_(?!layout)|uniform_(?!h_eig)|fast_random|chung|"
                     r"dcsbm|watts|complete_|trivial_|empty_|ring_|star_|sunflower|flag_|complement|shuffle_|node_swap|"
                     r"convert_labels|cut_to|k_skel|largest_connected_hyper|subhyper)")
    out = []
    for n in sorted(dir(xgi)):
        f = getattr(xgi, n)
        if n.startswith("_") or not callable(f) or inspect.isclass(f) or inspect.ismodule(f):
            continue
        if pat.match(n) and ("xgi." + n + "(") not in src:
            out.append(n)
    return out


def usable(prefix):
    """Names whose constructor succeeds on this tree and yields a network of the expected class; the others are
    reported (a provenance that raises is not a C04 matter)."""
    import xgi

    cls = {"H:": xgi.Hypergraph, "D:": xgi.DiHypergraph, "S:": xgi.SimplicialComplex}[prefix]
    ok, bad = [], []
    for n in names(prefix):
        try:
            obj = prov(n)
            if type(obj) is cls:
                ok.append(n)
            else:
                bad.append((n, f"returned {type(obj).__name__}"))
        except Exception as e:  # noqa: BLE001
            bad.append((n, f"{type(e).__name__}: {e}"))
    return ok, bad
