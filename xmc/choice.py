"""Choice-point exploration of randomized code (DESIGN.md 3.3, shape E3).

The harness owns the random source: the names `random`, `np` (numpy), `geometric` and `nx` inside the xgi
modules under test are replaced by enumerating shims.  Every draw is a choice point of small finite arity.  A
stateless depth-first explorer replays a recorded prefix of choices and extends it; a divergence while replaying
a prefix (different arity at the same position) is a hard error.  Every complete choice sequence is one execution.
"""
import contextlib
import importlib
import itertools
import math

import numpy as _np


class Divergence(Exception):
    pass


class TooManyChoices(Exception):
    pass


class Chooser:
    def __init__(self, prefix=(), arities=None, max_points=200):
        self.prefix = list(prefix)
        self.arities = arities  # arities recorded when the prefix was first produced (divergence check)
        self.trace = []  # (arity, choice, tag)
        self.max_points = max_points

    def choose(self, n, tag=""):
        if n <= 0:
            raise Divergence(f"choice point with arity {n} ({tag})")
        i = len(self.trace)
        if i >= self.max_points:
            raise TooManyChoices(tag)
        if i < len(self.prefix):
            c = self.prefix[i]
            if self.arities is not None and i < len(self.arities) and self.arities[i] != n:
                raise Divergence(f"arity {n} != recorded {self.arities[i]} at point {i} ({tag})")
            if c >= n:
                raise Divergence(f"recorded choice {c} out of range {n} at point {i} ({tag})")
        else:
            c = 0
        self.trace.append((n, c, tag))
        return c

    def choices(self):
        return [c for _, c, _ in self.trace]


def explore(run, max_execs=None):
    """Yield (trace, result) for every complete choice sequence of run(chooser).  Depth-first, stateless."""
    stack = [([], [])]
    n = 0
    while stack:
        prefix, ar = stack.pop()
        ch = Chooser(prefix, ar)
        result = run(ch)
        n += 1
        yield ch.trace, result
        if max_execs is not None and n >= max_execs:
            if stack:
                raise TooManyChoices(f"more than {max_execs} executions")
            return
        cs = [c for _, c, _ in ch.trace]
        ars = [a for a, _, _ in ch.trace]
        for i in range(len(ch.trace) - 1, len(prefix) - 1, -1):
            a = ars[i]
            for alt in range(a - 1, 0, -1):
                stack.append((cs[:i] + [alt], ars[:i] + [a]))


# ---------------------------------------------------------------------------------------------------------------
# Shims


class RandomShim:
    """Stands in for the stdlib `random` module inside an xgi module."""

    LO = 2.0 ** -40
    HI = 1.0 - 2.0 ** -40

    def __init__(self, ch):
        self._ch = ch

    def seed(self, *a, **k):
        return None

    def random(self):
        # only used in threshold tests (r <= p, r < q/p): two representative values
        return self.LO if self._ch.choose(2, "random") == 0 else self.HI

    def sample(self, population, k):
        pop = list(population)
        if k > len(pop) or k < 0:
            raise ValueError("Sample larger than population or is negative")
        # ordered samples without replacement: all k-permutations
        out = []
        for _ in range(k):
            i = self._ch.choose(len(pop), "sample")
            out.append(pop.pop(i))
        return out

    def choice(self, seq):
        seq = list(seq)
        if not seq:
            raise IndexError("Cannot choose from an empty sequence")
        return seq[self._ch.choose(len(seq), "choice")]

    def choices(self, population, weights=None, *, cum_weights=None, k=1):
        # ordered samples *with* replacement: every k-tuple (whatever the weights, every index of non-zero weight is
        # possible; indices of zero weight are left out)
        pop = list(population)
        if not pop:
            raise IndexError("Cannot choose from an empty sequence")
        w = None
        if weights is not None:
            w = list(weights)
        elif cum_weights is not None:
            cw = list(cum_weights)
            w = [cw[0]] + [cw[i] - cw[i - 1] for i in range(1, len(cw))]
        idx = [i for i in range(len(pop)) if w is None or w[i] > 0]
        return [pop[idx[self._ch.choose(len(idx), "choices")]] for _ in range(k)]

    def uniform(self, a, b):
        # used in threshold-like arithmetic only: two representative values near the ends
        return a + (b - a) * (self.LO if self._ch.choose(2, "uniform") == 0 else self.HI)

    def shuffle(self, x):
        pool = list(x)
        for i in range(len(x)):
            x[i] = pool.pop(self._ch.choose(len(pool), "shuffle"))

    def randrange(self, a, b=None):
        if b is None:
            a, b = 0, a
        return a + self._ch.choose(b - a, "randrange")

    def randint(self, a, b):
        return a + self._ch.choose(b - a + 1, "randint")


class _NpRandom:
    def __init__(self, ch):
        self._ch = ch

    def seed(self, *a, **k):
        return None

    def random(self, size=None):
        lo, hi = RandomShim.LO, RandomShim.HI
        if size is None:
            return lo if self._ch.choose(2, "np.random") == 0 else hi
        n = int(_np.prod(size))
        vals = [lo if self._ch.choose(2, "np.random[]") == 0 else hi for _ in range(n)]
        return _np.array(vals, dtype=float).reshape(size)

    def rand(self, *shape):
        if not shape:
            return self.random()
        return self.random(size=shape)

    def choice(self, a, size=None, replace=True, p=None):
        pop = list(range(a)) if isinstance(a, (int, _np.integer)) else list(a)
        if size is None:
            return pop[self._ch.choose(len(pop), "np.choice")]
        k = int(size)
        out = []
        if replace:
            for _ in range(k):
                out.append(pop[self._ch.choose(len(pop), "np.choice")])
        else:
            if k > len(pop):
                raise ValueError("Cannot take a larger sample than population when 'replace=False'")
            for _ in range(k):
                out.append(pop.pop(self._ch.choose(len(pop), "np.choice")))
        return _np.array(out)

    def permutation(self, x):
        pool = list(range(x)) if isinstance(x, (int, _np.integer)) else list(x)
        out = []
        while pool:
            out.append(pool.pop(self._ch.choose(len(pool), "np.permutation")))
        return _np.array(out)

    def randint(self, low, high=None, size=None):
        if high is None:
            low, high = 0, low
        if size is None:
            return low + self._ch.choose(high - low, "np.randint")
        n = int(_np.prod(size))
        return _np.array([low + self._ch.choose(high - low, "np.randint") for _ in range(n)]).reshape(size)


class NumpyShim:
    """Stands in for the name `np` inside an xgi module: everything is real numpy except `np.random`."""

    def __init__(self, ch):
        self.random = _NpRandom(ch)

    def __getattr__(self, name):
        return getattr(_np, name)


def geometric_shim(ch, horizon):
    """geometric(p) -> every skip 1..K, K = horizon() + 1 ('past the end')."""

    def geometric(p):
        if p >= 1:
            return 1  # the real sampler is deterministic here
        if p <= 0:
            return float("inf")
        k = max(1, int(horizon() if callable(horizon) else horizon) + 1)
        return 1 + ch.choose(k, "geometric")

    return geometric


class NxShim:
    """Stands in for `nx` inside xgi.generators.simplicial_complexes: fast_gnp_random_graph enumerates all graphs."""

    def __init__(self, ch):
        self._ch = ch

    def __getattr__(self, name):
        import networkx

        return getattr(networkx, name)

    def fast_gnp_random_graph(self, n, p, seed=None, directed=False):
        import networkx

        G = networkx.Graph()
        G.add_nodes_from(range(n))
        for u, v in itertools.combinations(range(n), 2):
            if self._ch.choose(2, "gnp") == 1:
                G.add_edge(u, v)
        return G


@contextlib.contextmanager
def patched(module_name, **names):
    """Temporarily assign names in a module's namespace (restored on exit).  Names the module does not define are
    skipped (a refactored tree may import differently); callers check non-vacuity of the exploration instead."""
    mod = importlib.import_module(module_name)
    missing = object()
    old = {k: mod.__dict__.get(k, missing) for k in names}
    try:
        for k, v in names.items():
            if old[k] is not missing:
                setattr(mod, k, v)
        yield mod
    finally:
        for k, v in old.items():
            if v is not missing:
                setattr(mod, k, v)


GEOMETRIC_MODULES = ("xgi.generators.random", "xgi.generators.uniform", "xgi.utils.utilities")


@contextlib.contextmanager
def own_rng(ch, horizon=None, geometric_modules=GEOMETRIC_MODULES):
    """Own every random source xgi uses: the stdlib `random` functions, `numpy.random` functions,
    `networkx.fast_gnp_random_graph`, and (when `horizon` is given) the name `geometric` in the consuming modules.
    Patches attributes of the library modules themselves, so it does not depend on how xgi spells its imports."""
    import random as _random
    import networkx as _nx

    rs, ns, nxs = RandomShim(ch), _NpRandom(ch), NxShim(ch)
    with contextlib.ExitStack() as st:
        st.enter_context(patched("random", seed=rs.seed, random=rs.random, sample=rs.sample, choice=rs.choice,
                                 shuffle=rs.shuffle, randrange=rs.randrange, randint=rs.randint, choices=rs.choices,
                                 uniform=rs.uniform))
        st.enter_context(patched("numpy.random", seed=ns.seed, random=ns.random, rand=ns.rand, choice=ns.choice,
                                 permutation=ns.permutation, randint=ns.randint))
        st.enter_context(patched("networkx", fast_gnp_random_graph=nxs.fast_gnp_random_graph))
        if horizon is not None:
            g = geometric_shim(ch, horizon)
            for m in geometric_modules:
                try:
                    st.enter_context(patched(m, geometric=g))
                except ImportError:
                    pass
        yield


def n_subsets(n, k):
    return math.comb(n, k)
