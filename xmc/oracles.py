"""State invariants shared by several checks.  Each returns a list of (monitor, message, tags)."""
import itertools


def _method(ctx):
    op = ctx.op or ctx.history[-1]
    return op.split("(", 1)[0]


def _tags(ctx):
    return {"method": _method(ctx), "raised": bool(ctx.out and ctx.out.raised)}


def undirected_incidence(ctx):
    """C01 / C03(iv): two-way incidence, no dangling ids, exactly one attribute record per id."""
    H = ctx.obj
    out = []

    def bad(mon, msg):
        out.append((mon, msg, _tags(ctx)))

    try:
        nodes = list(H.nodes)
        edges = list(H.edges)
        memberships = H.nodes.memberships()
        members = H.edges.members(dtype=dict)
    except Exception as e:  # noqa: BLE001
        bad("api-raises", f"reading nodes/edges/members/memberships raised {type(e).__name__}: {e}")
        return out
    nset, eset = set(nodes), set(edges)
    if len(nset) != len(nodes) or len(eset) != len(edges):
        bad("duplicate-id", f"duplicate IDs in views: nodes={nodes} edges={edges}")
    if None in nset or None in eset:
        bad("none-id", f"None listed as an ID: nodes={nodes} edges={edges}")
    if set(memberships) != nset:
        bad("memberships-keys", f"memberships() keys {set(memberships)} != nodes {nset}")
    if set(members) != eset:
        bad("members-keys", f"members() keys {set(members)} != edges {eset}")
    for e, m in members.items():
        for n in m:
            if n not in nset:
                bad("dangling-member", f"edge {e!r} reports member {n!r} which is not a node")
            elif e not in memberships.get(n, ()):
                bad("one-way", f"node {n!r} in members({e!r}) but {e!r} not in memberships({n!r})")
    for n, es in memberships.items():
        for e in es:
            if e not in eset:
                bad("dangling-membership", f"node {n!r} reports membership {e!r} which is not an edge")
            elif n not in members.get(e, ()):
                bad("one-way", f"edge {e!r} in memberships({n!r}) but {n!r} not in members({e!r})")
    for n in nodes:
        try:
            a = H.nodes[n]
            if not isinstance(a, dict):
                bad("attr-record", f"node {n!r} attribute record is {type(a).__name__}")
        except Exception as ex:  # noqa: BLE001
            bad("attr-record", f"node {n!r} has no attribute record ({type(ex).__name__}: {ex})")
    for e in edges:
        try:
            a = H.edges[e]
            if not isinstance(a, dict):
                bad("attr-record", f"edge {e!r} attribute record is {type(a).__name__}")
        except Exception as ex:  # noqa: BLE001
            bad("attr-record", f"edge {e!r} has no attribute record ({type(ex).__name__}: {ex})")
    # degree / size agree with the incidence
    try:
        deg = H.nodes.degree.asdict()
        size = H.edges.size.asdict()
        if deg != {n: len(memberships[n]) for n in nodes if n in memberships}:
            bad("degree", f"degree {deg} != |memberships| {({n: len(v) for n, v in memberships.items()})}")
        if size != {e: len(members[e]) for e in edges if e in members}:
            bad("size", f"size {size} != |members|")
    except Exception as ex:  # noqa: BLE001
        bad("api-raises", f"degree/size raised {type(ex).__name__}: {ex}")
    # second witness: the internal tables (skipped silently if a refactor renamed them)
    na, ea = getattr(H, "_node_attr", None), getattr(H, "_edge_attr", None)
    if na is not None and set(na) != nset:
        bad("attr-record", f"node attribute table keys {set(na)} != nodes {nset}")
    if ea is not None and set(ea) != eset:
        bad("attr-record", f"edge attribute table keys {set(ea)} != edges {eset}")
    nt, et = getattr(H, "_node", None), getattr(H, "_edge", None)
    if nt is not None and {k: set(v) for k, v in nt.items()} != {k: set(v) for k, v in memberships.items()}:
        bad("witness", "internal node table disagrees with memberships()")
    if et is not None and {k: set(v) for k, v in et.items()} != {k: set(v) for k, v in members.items()}:
        bad("witness", "internal edge table disagrees with members()")
    return out


def directed_incidence(ctx):
    """C02: tail <-> out-memberships, head <-> in-memberships, no dangling ids, one attribute record each."""
    H = ctx.obj
    out = []

    def bad(mon, msg):
        out.append((mon, msg, _tags(ctx)))

    try:
        nodes = list(H.nodes)
        edges = list(H.edges)
        dmem = H.nodes.dimemberships()  # node -> (in-memberships, out-memberships)
        dmb = H.edges.dimembers(dtype=dict)  # edge -> (tail, head)
        tails = {e: set(H.edges.tail(e)) for e in edges}
        heads = {e: set(H.edges.head(e)) for e in edges}
    except Exception as e:  # noqa: BLE001
        bad("api-raises", f"reading the directed views raised {type(e).__name__}: {e}")
        return out
    nset, eset = set(nodes), set(edges)
    if len(nset) != len(nodes) or len(eset) != len(edges):
        bad("duplicate-id", f"duplicate IDs in views: nodes={nodes} edges={edges}")
    if None in nset or None in eset:
        bad("none-id", f"None listed as an ID: nodes={nodes} edges={edges}")
    if set(dmem) != nset:
        bad("memberships-keys", f"dimemberships() keys {set(dmem)} != nodes {nset}")
    if set(dmb) != eset:
        bad("members-keys", f"dimembers() keys {set(dmb)} != edges {eset}")
    for e, (t, h) in dmb.items():
        if e in tails and (set(t) != tails[e] or set(h) != heads[e]):
            bad("tail-head", f"dimembers({e!r})={t, h} but tail/head = {tails[e], heads[e]}")
        for n in t:
            if n not in nset:
                bad("dangling-member", f"edge {e!r} has tail node {n!r} which is not a node")
            elif e not in dmem[n][1]:
                bad("one-way", f"{n!r} in tail({e!r}) but {e!r} not in out-memberships({n!r})")
        for n in h:
            if n not in nset:
                bad("dangling-member", f"edge {e!r} has head node {n!r} which is not a node")
            elif e not in dmem[n][0]:
                bad("one-way", f"{n!r} in head({e!r}) but {e!r} not in in-memberships({n!r})")
    for n, (i, o) in dmem.items():
        for e in o:
            if e not in eset:
                bad("dangling-membership", f"node {n!r} has out-membership {e!r} which is not an edge")
            elif n not in dmb[e][0]:
                bad("one-way", f"{e!r} in out-memberships({n!r}) but {n!r} not in tail({e!r})")
        for e in i:
            if e not in eset:
                bad("dangling-membership", f"node {n!r} has in-membership {e!r} which is not an edge")
            elif n not in dmb[e][1]:
                bad("one-way", f"{e!r} in in-memberships({n!r}) but {n!r} not in head({e!r})")
    for n in nodes:
        try:
            if not isinstance(H.nodes[n], dict):
                bad("attr-record", f"node {n!r} attribute record is not a dict")
        except Exception as ex:  # noqa: BLE001
            bad("attr-record", f"node {n!r} has no attribute record ({type(ex).__name__}: {ex})")
    for e in edges:
        try:
            if not isinstance(H.edges[e], dict):
                bad("attr-record", f"edge {e!r} attribute record is not a dict")
        except Exception as ex:  # noqa: BLE001
            bad("attr-record", f"edge {e!r} has no attribute record ({type(ex).__name__}: {ex})")
    try:
        ind, outd, deg = H.nodes.in_degree.asdict(), H.nodes.out_degree.asdict(), H.nodes.degree.asdict()
        for n in nodes:
            if n not in dmem:
                continue
            i, o = dmem[n]
            if ind[n] != len(i) or outd[n] != len(o) or deg[n] != len(set(i) | set(o)):
                bad("degree", f"node {n!r}: in/out/degree = {ind[n], outd[n], deg[n]} but memberships in={set(i)} out={set(o)}")
        hs, ts, sz = H.edges.head_size.asdict(), H.edges.tail_size.asdict(), H.edges.size.asdict()
        for e in edges:
            if e not in dmb:
                continue
            t, h = dmb[e]
            if hs[e] != len(h) or ts[e] != len(t) or sz[e] != len(set(t) | set(h)):
                bad("size", f"edge {e!r}: head/tail/size = {hs[e], ts[e], sz[e]} but tail={set(t)} head={set(h)}")
    except Exception as ex:  # noqa: BLE001
        bad("api-raises", f"directed degree/size stats raised {type(ex).__name__}: {ex}")
    na, ea = getattr(H, "_node_attr", None), getattr(H, "_edge_attr", None)
    if na is not None and set(na) != nset:
        bad("attr-record", f"node attribute table keys {set(na)} != nodes {nset}")
    if ea is not None and set(ea) != eset:
        bad("attr-record", f"edge attribute table keys {set(ea)} != edges {eset}")
    return out


def simplicial_closure(ctx):
    """C03 (i)-(iii), (vi): downward closed, duplicate-free, no empty simplex, has_simplex exact."""
    S = ctx.obj
    out = []

    def bad(mon, msg):
        out.append((mon, msg, _tags(ctx)))

    try:
        members = S.edges.members(dtype=dict)
    except Exception as e:  # noqa: BLE001
        bad("api-raises", f"members() raised {type(e).__name__}: {e}")
        return out
    sets = {}
    for e, m in members.items():
        fs = frozenset(m)
        if not fs:
            bad("empty-simplex", f"simplex {e!r} is empty")
        if fs in sets:
            bad("duplicate-simplex", f"simplices {sets[fs]!r} and {e!r} have the same node set {set(fs)}")
        sets.setdefault(fs, e)
    for fs in list(sets):
        if len(fs) > 6:
            continue
        for k in range(2, len(fs)):
            for sub in itertools.combinations(sorted(fs, key=repr), k):
                if frozenset(sub) not in sets:
                    bad("not-closed", f"{set(fs)} is a simplex but its face {set(sub)} is not")
                    break
    # has_simplex over every subset of the universe, four argument types
    try:
        universe = sorted(set(S.nodes) | {1, 2, 3, 4}, key=repr)[:6]
        for k in range(0, min(len(universe), 5) + 1):
            for sub in itertools.combinations(universe, k):
                want = frozenset(sub) in sets
                # containers, reversed order, and one-shot iterables (iterator, generator, dict keys view, map object)
                shapes = (("list", lambda: list(sub)), ("set", lambda: set(sub)), ("tuple", lambda: tuple(sub)),
                          ("frozenset", lambda: frozenset(sub)), ("reversed list", lambda: list(sub)[::-1]),
                          ("iterator", lambda: iter(list(sub))), ("generator", lambda: (x for x in sub)),
                          ("dict keys", lambda: dict.fromkeys(sub).keys()), ("map", lambda: map(lambda x: x, sub)))
                for label, mk in shapes:
                    got = S.has_simplex(mk())
                    if bool(got) != want:
                        bad("has-simplex", f"has_simplex(<{label} of {list(sub)!r}>) = {got!r}, expected {want}")
                        break
    except Exception as ex:  # noqa: BLE001
        bad("api-raises", f"has_simplex raised {type(ex).__name__}: {ex}")
    return out
