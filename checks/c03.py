"""C03 Simplicial complexes stay downward closed and duplicate-free (DESIGN.md 5, E1)."""
import re

from xmc import alphabets as A
from xmc import explore, histcheck, oracles

PROP = "C03"

SEEDS = [
    "xgi.SimplicialComplex()",
    "xgi.SimplicialComplex([[1, 2, 3], [3, 4]])",
    "xgi.SimplicialComplex({5: [1, 2], 'e': [2, 3], 0: [4]})",
    "xgi.SimplicialComplex([['a', 'b', 'c']])",
]

ADDERS = ("H.add_simplex", "H.add_simplices_from", "H.add_weighted_simplices_from", "H.add_edge", "H.add_edges_from",
          "H.add_weighted_edges_from", "H.add_node", "H.add_nodes_from", "H.close", "H.set_node_attributes",
          "H.set_edge_attributes", "H.__setitem__")
_MAXO = re.compile(r"max_order=(\d+)")
_ARG = re.compile(r"\((.*)\)$")


def _ev(text):
    """Evaluate an argument text of an operation with the names the alphabets bind (exotic labels)."""
    import numpy as np

    ns = dict(A.NAMESPACE)
    ns["np"] = np
    try:
        return eval(text, ns)
    except NameError:
        raise RuntimeError(f"harness: unbound name in operation argument {text!r}")  # never a silent skip


def step_relations(ctx):
    """(v): removal removes exactly the simplex and its supersets; max_order respected by what a call creates;
    nothing is deleted by a non-removal."""
    out = []
    pre = ctx.pre
    if pre is None or not ctx.changed:
        return out
    try:
        post = {e: frozenset(m) for e, m in ctx.obj.edges.members(dtype=dict).items()}
        post_nodes = set(ctx.obj.nodes)
    except Exception:  # noqa: BLE001 - reported by the invariants
        return out
    prem = pre["members"]
    method = ctx.op.split("(", 1)[0]
    tags = {"method": method, "raised": ctx.out.raised}
    removed = {e for e in prem if e not in post}
    altered = {e for e in prem if e in post and post[e] != prem[e]}
    created = {e for e in post if e not in prem}
    if altered and (method in ADDERS or method.startswith("H.remove")):
        out.append(("altered", f"{ctx.op}: existing simplices changed members: "
                    f"{({e: (set(prem[e]), set(post[e])) for e in altered})}", tags))
    if method in ADDERS:
        if removed:
            out.append(("adder-deletes", f"{ctx.op} removed simplices {removed}", tags))
        if set(pre["nodes"]) - post_nodes:
            out.append(("adder-deletes", f"{ctx.op} removed nodes {set(pre['nodes']) - post_nodes}", tags))
        m = _MAXO.search(ctx.op)
        if m:
            k = int(m.group(1))
            big = {e: set(post[e]) for e in created if len(post[e]) > k + 1}
            if big:
                out.append(("max-order", f"{ctx.op} created simplices above order {k}: {big}", tags))
    elif method in ("H.remove_simplex_id", "H.remove_edge") and not ctx.out.raised:
        try:
            idx = _ev(_ARG.search(ctx.op).group(1))
        except Exception:  # noqa: BLE001
            return out
        if idx in prem:
            want = {e for e, m in prem.items() if prem[idx] <= m}
            if removed != want or created:
                out.append(("remove-exact", f"{ctx.op}: removed {removed}, created {created}; expected to remove "
                            f"exactly {want} (the simplex and the simplices containing it)", tags))
    elif method in ("H.remove_simplex_ids_from", "H.remove_edges_from"):
        try:
            ids = _ev(_ARG.search(ctx.op).group(1))
        except Exception:  # noqa: BLE001
            return out
        want = set()
        for idx in ids:
            if idx in prem:
                want |= {e for e, m in prem.items() if prem[idx] <= m}
        if (not ctx.out.raised and removed != want) or not removed <= want or created:
            out.append(("remove-exact", f"{ctx.op}: removed {removed}, created {created}; expected {want}", tags))
    elif method == "H.remove_node" and not ctx.out.raised:
        try:
            n = _ev(_ARG.search(ctx.op).group(1))
        except Exception:  # noqa: BLE001
            return out
        want = {e for e, m in prem.items() if n in m}
        if removed != want or created or set(pre["nodes"]) - post_nodes != {n}:
            out.append(("remove-exact", f"{ctx.op}: removed simplices {removed} / nodes "
                        f"{set(pre['nodes']) - post_nodes}; expected simplices {want} and node {n}", tags))
    return out


def specs(tier):
    static = A.simplicial_static() + A.simplicial_deviant()
    gens = [A.gen_simplex_removals]
    inv = [oracles.undirected_incidence, oracles.simplicial_closure]
    exotic = explore.Spec("simplicialcomplex-histories-exotic-labels",
                          ["xgi.SimplicialComplex()", "xgi.SimplicialComplex({ET: [TA, SB], 5: [SB, FC]})"],
                          A.simplicial_exotic(), gens, invariants=inv, steps=[step_relations], depth=3,
                          dev_bound=1 if tier == "quick" else 2, namespace=histcheck.base_namespace)
    if tier == "quick":
        return [explore.Spec("simplicialcomplex-histories", SEEDS, static, gens, invariants=inv, steps=[step_relations],
                             depth=3, dev_bound=1, namespace=histcheck.base_namespace), exotic]
    return [exotic,
        explore.Spec("simplicialcomplex-histories", SEEDS, static, gens, invariants=inv, steps=[step_relations],
                     depth=3, dev_bound=2, namespace=histcheck.base_namespace),
        explore.Spec("simplicialcomplex-histories-deep", SEEDS[:2], A.simplicial_trim(), gens, invariants=inv,
                     steps=[step_relations], depth=4, dev_bound=2, namespace=histcheck.base_namespace),
    ]


def run(tier, ev):
    ev.cov["rule"] = ("BFS over histories of SimplicialComplex's own mutators (real calls); closure, uniqueness, "
                      "non-emptiness, two-way incidence and has_simplex exactness on every distinct state; "
                      "removal / max_order / no-deletion step relations on every transition")
    ev.cov["bounds"] = {"node_labels": [1, 2, 3, 4, 5], "edge_ids": [0, 2, 5, "e", "auto"], "max_order": [None, 0, 1, 2]}
    ev.assumptions += ["small-scope: labels, depth and deviation bounds as stated"]
    v = histcheck.run_specs(PROP, "c03", specs(tier), ev)
    v = list(v) + histcheck.nan_histories(PROP, "c03", "SimplicialComplex", [oracles.undirected_incidence, oracles.simplicial_closure], ev, depth=2 if tier == "quick" else 3)
    ev.sample({"history": ["xgi.SimplicialComplex()", "H.add_simplices_from([[1, 2, 3, 4, 5]], max_order=1)",
                           "H.remove_simplex_id(0)"]})
    return v


def replay(case):
    if case.get("kind") == "nan-history":
        r = histcheck.run_nan_history(case["cls"], case["ops"], [oracles.undirected_incidence, oracles.simplicial_closure])
        return [f"{r[0]}: {r[1]}"] if r else []
    for s in specs("thorough"):
        if s.name == case["spec"]:
            return histcheck.replay_history(s, case)
    return []
