"""C10 Conversions between representations preserve the incidence relation (DESIGN.md 5 C10; E2 x converter pairs)."""
import itertools
import warnings

import numpy as np

from xmc import canon as C
from xmc import env, explore, families as F
from xmc.evidence import Violation

PROP = "C10"


def inc_node_side(H):
    """The incidence relation as the *nodes* report it (memberships / dimemberships)."""
    if type(H).__name__ == "DiHypergraph":
        s = set()
        for n in H.nodes:
            i, o = H.nodes.dimemberships(n)
            # a node's out-memberships are the edges whose tail holds it, its in-memberships those whose head holds it
            s |= {(n, e, "tail") for e in o} | {(n, e, "head") for e in i}
        return s
    return {(n, e) for n in H.nodes for e in H.nodes.memberships(n)}


def inc(H):
    """The incidence relation of a network, read from the edge side; if the node side reports a different relation the
    difference is made part of the value, so that no comparison with a consistent network can succeed."""
    if type(H).__name__ == "DiHypergraph":
        s = set()
        for e, (t, h) in H.edges.dimembers(dtype=dict).items():
            s |= {(n, e, "tail") for n in t} | {(n, e, "head") for n in h}
    else:
        s = {(n, e) for e, m in H.edges.members(dtype=dict).items() for n in m}
    try:
        ns = inc_node_side(H)
    except Exception as e:  # noqa: BLE001
        ns = {("node side unreadable", type(e).__name__)}
    if ns != s:
        return s | {("NODE-SIDE-DISAGREES", repr(sorted(ns ^ s, key=repr)))}
    return s


def full(H):
    s = C.snapshot(H)
    return {"cls": s["cls"], "nodes": set(s["nodes"]), "edges": set(s["edges"]), "members": s["members"],
            "nattr": s["nattr"], "eattr": s["eattr"], "net": s["net"], "incidences(both sides)": inc(H)}


def decorate(spec, mode):
    """Variants of a base spec: 0 plain; 1 attributes + string edge IDs; 2 gapped, decreasing integer IDs + attrs."""
    m = len(spec["edges"])
    if mode == 0:
        return spec
    s = {k: (dict(v) if isinstance(v, dict) else list(v)) for k, v in spec.items()}
    s["cls"] = spec["cls"]
    if mode == 1:
        ids = ["e%d" % (m - i) for i in range(m)]
    else:
        ids = [10 * (m - i) for i in range(m)]
    s["edges"] = [[ids[i], mem] for i, (_, mem) in enumerate(spec["edges"])]
    # attribute names include the names of the adders' own parameters (node, self, idx, members, edge)
    if spec["nodes"]:
        s["nattr"] = {spec["nodes"][0]: {"c": "r", "k": [1, {"z": 2}], "node": "first"},
                      spec["nodes"][-1]: {"node": "last", "self": 1, "attr": 2}}
        if len(spec["nodes"]) == 1:
            s["nattr"] = {spec["nodes"][0]: {"c": "r", "k": [1, {"z": 2}], "node": "only", "self": 1}}
    if m:
        s["eattr"] = {0: {"w": 2, "tag": "a", "idx": 5, "members": [9]}, m - 1: {"w": 0.5, "edge": "x", "self": 0}}
        if m == 1:
            s["eattr"] = {0: {"w": 2, "tag": "a", "idx": 5, "members": [9], "edge": "x", "self": 0}}
    s["net"] = {"name": "g", "meta": {"a": [1, 2]}}
    return s


# ---------------------------------------------------------------------------------------------------------------
# round trips: each returns a list of (monitor, message)


def rt_undirected(H, spec):
    import xgi

    out = []
    I0 = inc(H)
    mem = H.edges.members(dtype=dict)
    has_empty = any(len(m) == 0 for m in mem.values())
    labels_int = all(isinstance(n, int) for n in H.nodes) and all(isinstance(e, int) for e in H.edges)
    labels_str = all(isinstance(n, str) for n in H.nodes) and all(isinstance(e, str) for e in H.edges)

    def bad(mon, msg):
        out.append((mon, msg))

    # 1 hyperedge list (no labels: same edge order)
    def _b1():
        if not has_empty:
            L = xgi.to_hyperedge_list(H)
            H2 = xgi.from_hyperedge_list(L)
            if [set(m) for m in H2.edges.members()] != [set(mem[e]) for e in H.edges]:
                bad("hyperedge-list", f"edge list round trip: {H2.edges.members()} != {[mem[e] for e in H.edges]}")
            H3 = xgi.Hypergraph(L)
            if [set(m) for m in H3.edges.members()] != [set(mem[e]) for e in H.edges]:
                bad("hyperedge-list", "Hypergraph(list) differs from the list")

    # 2 hyperedge dict
    def _b2():
        d = xgi.to_hyperedge_dict(H)
        H2 = xgi.from_hyperedge_dict(d)
        if {e: set(m) for e, m in H2.edges.members(dtype=dict).items()} != {e: set(m) for e, m in mem.items()}:
            bad("hyperedge-dict", f"edge dict round trip: {H2.edges.members(dtype=dict)} != {mem}")

    # 3 bipartite edge list
    def _b3():
        if I0:
            bl = xgi.to_bipartite_edgelist(H)
            H2 = xgi.from_bipartite_edgelist(bl)
            if inc(H2) != I0 or type(H2).__name__ != "Hypergraph":
                bad("bipartite-edgelist", f"bipartite edge list round trip: {sorted(inc(H2), key=repr)} != {sorted(I0, key=repr)}")

    # 4 labelled incidence matrix
    def _b4():
        if I0:
            for sparse in (True, False):
                M, rd, cd = xgi.to_incidence_matrix(H, sparse=sparse, index=True)
                H2 = xgi.from_incidence_matrix(M, nodelabels=[rd[i] for i in range(len(rd))], edgelabels=[cd[j] for j in range(len(cd))])
                if inc(H2) != I0:
                    bad("incidence-matrix", f"labelled incidence matrix round trip (sparse={sparse}): {sorted(inc(H2), key=repr)} "
                        f"!= {sorted(I0, key=repr)}")
            # unlabelled: positions
            M = xgi.to_incidence_matrix(H, sparse=False)
            H2 = xgi.from_incidence_matrix(M)
            pos_n = {n: i for i, n in enumerate(H.nodes)}
            pos_e = {e: j for j, e in enumerate(H.edges)}
            if inc(H2) != {(pos_n[n], pos_e[e]) for n, e in I0}:
                bad("incidence-matrix", "unlabelled incidence matrix round trip is not positional")

    # 5 bipartite graph
    def _b5():
        G, nd, ed = xgi.to_bipartite_graph(H, index=True)
        H2 = xgi.from_bipartite_graph(G)
        got = {(nd[t[0]], ed[t[1]]) if t[0] != "NODE-SIDE-DISAGREES" else t for t in inc(H2)}
        if got != I0:
            bad("bipartite-graph", f"bipartite graph round trip: {sorted(got, key=repr)} != {sorted(I0, key=repr)}")
        if {nd[n] for n in H2.nodes} != set(H.nodes):
            bad("bipartite-graph", f"bipartite graph round trip lost nodes: {[nd[n] for n in H2.nodes]} vs {list(H.nodes)}")

    # 6 dataframe
    def _b6():
        if I0:
            df = xgi.to_bipartite_pandas_dataframe(H)
            H2 = xgi.from_bipartite_pandas_dataframe(df, node_column="Node ID", edge_column="Edge ID")
            if inc(H2) != I0:
                bad("dataframe", f"two-column dataframe round trip: {sorted(inc(H2), key=repr)} != {sorted(I0, key=repr)}")
            H3 = xgi.Hypergraph(df)
            if inc(H3) != I0:
                bad("dataframe", "Hypergraph(dataframe) differs")

    # 7 standard dict
    def _b7():
        if labels_int or labels_str:
            cast = int if labels_int else None
            dd = xgi.to_hypergraph_dict(H)
            H2 = xgi.from_hypergraph_dict(dd, nodetype=cast, edgetype=cast)
            a, b = full(H), full(H2)
            if a != b:
                bad("hypergraph-dict", f"standard dict round trip: {_fd(a, b)}")
        elif all(isinstance(n, int) for n in H.nodes):
            dd = xgi.to_hypergraph_dict(H)
            H2 = xgi.from_hypergraph_dict(dd, nodetype=int)
            a, b = full(H), full(H2)
            a["edges"] = {str(e) for e in a["edges"]}
            a["members"] = {str(e): m for e, m in a["members"].items()}
            a["eattr"] = {str(e): m for e, m in a["eattr"].items()}
            a["incidences(both sides)"] = {(t[0], str(t[1])) if t[0] != "NODE-SIDE-DISAGREES" else t for t in a["incidences(both sides)"]}
            if a != b:
                bad("hypergraph-dict", f"standard dict round trip (string edge IDs): {_fd(a, b)}")
        # one type per column, two different types: each column read back with its own explicit cast (an edge ID may be
        # spelt like a node label)
        plain = lambda t: (lambda x: type(x) is t)  # noqa: E731
        for nt, et in ((int, str), (str, int), (float, str), (str, float), (int, float)):
            if H.num_nodes and H.num_edges and all(map(plain(nt), H.nodes)) and all(map(plain(et), H.edges)):
                H2 = xgi.from_hypergraph_dict(xgi.to_hypergraph_dict(H), nodetype=nt, edgetype=et)
                a, b = full(H), full(H2)
                if a != b or [type(x) for x in H2.edges] != [et] * H2.num_edges or [type(x) for x in H2.nodes] != [nt] * H2.num_nodes:
                    bad("hypergraph-dict", f"standard dict round trip with nodetype={nt.__name__}, edgetype={et.__name__}: "
                        f"{_fd(a, b) or [type(x).__name__ for x in H2.edges]}")

    # 8 HIF dict
    def _b8():
        H2 = xgi.from_hif_dict(xgi.to_hif_dict(H))
        a, b = full(H), full(H2)
        if a != b:
            bad("hif-dict", f"HIF dict round trip: {_fd(a, b)}")

    # 9 class to class
    def _b9():
        S2 = xgi.SimplicialComplex(H)
        sm = {frozenset(m) for m in S2.edges.members()}
        for e, m in mem.items():
            if m and frozenset(m) not in sm:
                bad("to-simplicial-complex", f"SimplicialComplex(H) lacks the member set of edge {e!r}")
            for k in range(2, len(m)):
                for sub in itertools.combinations(sorted(m, key=repr), k):
                    if frozenset(sub) not in sm:
                        bad("to-simplicial-complex", f"SimplicialComplex(H) lacks face {sub} of edge {e!r}")
        if set(S2.nodes) != set(H.nodes) or {n: S2.nodes[n] for n in S2.nodes} != {n: H.nodes[n] for n in H.nodes}:
            bad("to-simplicial-complex", "SimplicialComplex(H) changed the node set or node attributes")
        if dict(S2._net_attr) != dict(H._net_attr):
            bad("to-simplicial-complex", f"SimplicialComplex(H) network attributes {dict(S2._net_attr)} != {dict(H._net_attr)}")
        first = {}
        for e in H.edges:
            if mem[e]:
                first.setdefault(frozenset(mem[e]), e)
        s2m = S2.edges.members(dtype=dict)
        for fs, e in first.items():
            if e not in s2m or frozenset(s2m[e]) != fs or S2.edges[e] != H.edges[e]:
                bad("to-simplicial-complex", f"SimplicialComplex(H): edge {e!r} (first with its member set) should keep its ID "
                    f"and attributes {H.edges[e]}; got {s2m.get(e)!r} / {S2.edges[e] if e in s2m else None}")
    for fn, nm in ((_b1, 'hyperedge list'), (_b2, 'hyperedge dict'), (_b3, 'bipartite edge list'), (_b4, 'labelled incidence matrix'), (_b5, 'bipartite graph'), (_b6, 'dataframe'), (_b7, 'standard dict'), (_b8, 'HIF dict'), (_b9, 'class to class')):
        try:
            fn()
        except RecursionError:
            raise
        except Exception as e:  # noqa: BLE001
            import traceback

            bad(nm.replace(' ', '-') + '-raises', f"{nm}: {type(e).__name__}: {e} at {traceback.format_exc().splitlines()[-3].strip()}")
    return out


def rt_directed(D, spec):
    import xgi

    out = []
    I0 = inc(D)

    def bad(mon, msg):
        out.append((mon, msg))

    if I0:
        bl = xgi.to_bipartite_edgelist(D)
        D2 = xgi.from_bipartite_edgelist(bl)
        tr = {"in": "tail", "out": "head"}
        if type(D2).__name__ != "DiHypergraph" or inc(D2) != I0:
            bad("bipartite-edgelist", f"directed bipartite edge list round trip: {sorted(inc(D2), key=repr)} != {sorted(I0, key=repr)}")
        if {(n, e, tr[d]) for n, e, d in bl} != I0:
            bad("bipartite-edgelist", "to_bipartite_edgelist directions do not match tail/head")
    G, nd, ed = xgi.to_bipartite_graph(D, index=True)
    D2 = xgi.from_bipartite_graph(G)
    got = {(nd[t[0]], ed[t[1]], t[2]) if t[0] != "NODE-SIDE-DISAGREES" else t for t in inc(D2)}
    if got != I0:
        bad("bipartite-graph", f"directed bipartite graph round trip: {sorted(got, key=repr)} != {sorted(I0, key=repr)}")
    D2 = xgi.from_hif_dict(xgi.to_hif_dict(D))
    a, b = full(D), full(D2)
    if a != b:
        bad("hif-dict", f"directed HIF dict round trip: {_fd(a, b)}")
    H2 = xgi.Hypergraph(D)
    dm = D.edges.dimembers(dtype=dict)
    if {e: set(m) for e, m in H2.edges.members(dtype=dict).items()} != {e: set(t) | set(h) for e, (t, h) in dm.items()}:
        bad("to-hypergraph", "Hypergraph(D) members != tail | head")
    if set(H2.nodes) != set(D.nodes) or {n: H2.nodes[n] for n in H2.nodes} != {n: D.nodes[n] for n in D.nodes} or \
            {e: H2.edges[e] for e in H2.edges} != {e: D.edges[e] for e in D.edges} or dict(H2._net_attr) != dict(D._net_attr):
        bad("to-hypergraph", "Hypergraph(D) changed nodes or attributes")
    return out


def rt_complex(S, spec):
    import xgi

    out = []

    def bad(mon, msg):
        out.append((mon, msg))

    S2 = xgi.from_hif_dict(xgi.to_hif_dict(S))
    a, b = full(S), full(S2)
    if a != b:
        bad("hif-dict", f"simplicial complex HIF dict round trip: {_fd(a, b)}")
    H2 = xgi.Hypergraph(S)
    a, b = full(S), full(H2)
    a["cls"] = b["cls"] = "x"
    if a != b:
        bad("to-hypergraph", f"Hypergraph(S): {_fd(a, b)}")
    S3 = xgi.SimplicialComplex(xgi.to_hyperedge_list(S))
    if {frozenset(m) for m in S3.edges.members()} != {frozenset(m) for m in S.edges.members()}:
        bad("hyperedge-list", "SimplicialComplex(to_hyperedge_list(S)) has different simplices")
    S4 = xgi.from_simplex_dict(xgi.to_hyperedge_dict(S))
    if {e: frozenset(m) for e, m in S4.edges.members(dtype=dict).items()} != {e: frozenset(m) for e, m in S.edges.members(dtype=dict).items()}:
        bad("hyperedge-dict", "from_simplex_dict(to_hyperedge_dict(S)) differs")
    if inc(S):
        H5 = xgi.from_bipartite_edgelist(xgi.to_bipartite_edgelist(S))
        if inc(H5) != inc(S):
            bad("bipartite-edgelist", "bipartite edge list of a complex does not round trip")
    return out


def _fd(a, b):
    return "; ".join(f"{k}: {a[k]!r} != {b[k]!r}" for k in a if a[k] != b.get(k))[:500]


def _work(item):
    kind, spec = item
    viols = []
    with warnings.catch_warnings():
        warnings.simplefilter("ignore")
        try:
            H = F.build(spec)
            fn = {"H": rt_undirected, "D": rt_directed, "S": rt_complex}[spec["cls"]]
            res = fn(H, spec)
            F.detour(H)
            F.morph(H)
            F.rename(H)  # one node replaced by a node with a new label: same counts, another node set
            res = list(res) + [(m, "[same object after remove+re-add of its first node and edge] " + msg) for m, msg in fn(H, spec)]
        except RecursionError:
            raise
        except Exception as e:  # noqa: BLE001
            import traceback

            res = [("converter-raises", f"{type(e).__name__}: {e} at {traceback.format_exc().splitlines()[-3].strip()}")]
    for mon, msg in res:
        viols.append((mon, msg, spec))
    return {"n": 1, "viols": viols[:4]}


def _bip_work(mask):
    """from_bipartite_graph: result independent of vertex insertion order, link endpoint order and `dual`."""
    import networkx as nx

    import xgi

    nodes, edges = [1, 2, 3], ["x", "y"]
    links = [(n, e) for n in nodes for e in edges]
    present = [links[i] for i in range(len(links)) if mask >> i & 1]
    verts = nodes + edges
    want = set(present)
    n = 0
    viols = []
    for order in itertools.permutations(verts):
        for orient in (0, 1, 2):
            G = nx.Graph()
            for v in order:
                G.add_node(v, bipartite=0 if v in nodes else 1)
            for i, (a, b) in enumerate(present):
                if orient == 1 or (orient == 2 and i % 2):
                    G.add_edge(b, a)
                else:
                    G.add_edge(a, b)
            n += 1
            try:
                H = xgi.from_bipartite_graph(G)
                got = inc(H)
                gn = set(H.nodes)
                Hd = xgi.from_bipartite_graph(G, dual=True)
                gd = {(e, n_) for n_, e in inc(Hd)}
            except Exception as e:  # noqa: BLE001
                got, gn, gd = f"raised {type(e).__name__}: {e}", set(nodes), want
            if got != want or gn != set(nodes) or gd != want:
                if len(viols) < 2:
                    viols.append(("bipartite-graph-order", f"from_bipartite_graph with vertex order {order}, link orientation "
                                  f"{orient}: incidences {got} (dual: {gd}), expected {want}",
                                  {"order": list(order), "orient": orient, "links": present}))
    return {"n": n, "viols": viols}


def family(tier):
    q = tier == "quick"
    items = []
    base = list(F.undirected([1, 2, 3], 3)) + list(F.undirected([1, 2, 3, 4], 2, min_edges=1))
    if not q:
        base = list(F.undirected([1, 2, 3, 4], 3)) + list(F.undirected([1, 2, 3, 4, 5], 2, min_edges=2)) + [s for s in F.undirected([1, 2, 3, 4, 5], 3, isolated=False, min_edges=3) if 5 in s["nodes"]]
    for s in base:
        for mode in (0, 1, 2):
            items.append(("H", decorate(s, mode)))
    for s in base[::7]:
        items.append(("H", F.with_empty_edge(decorate(s, 2))))
        items.append(("H", decorate(F.relabel(s, node_map={n: "v%d" % n for n in s["nodes"]}), 1)))
    # label *types* other than uniform int / str: floats, tuples, and several types mixed within one network, for node
    # labels and for explicit edge IDs (every in-memory representation that carries labels must carry these unchanged)
    for s in base[::3 if q else 2]:
        m = len(s["edges"])
        for k, (_, nm) in enumerate(F.exotic_label_maps(s["nodes"])):
            eids = [[i + 0.5 for i in range(m)], [("e", i) for i in range(m)], ["a", 7, (1, 2), 2.5, "b", 11][:m] if m <= 6 else None,
                    list(range(m))][k % 4]
            if eids is None:
                continue
            items.append(("H", F.relabel(s, node_map=nm, edge_ids=eids)))
        # IDs that are integers by value but not by type (equal to the automatic IDs as dictionary keys)
        items.append(("H", F.relabel(s, edge_ids=[float(i) for i in range(m)])))
        items.append(("H", F.relabel(s, edge_ids=[np.int64(m - i) for i in range(m)])))
    for w in F.wide():  # more than ten nodes and edges
        items.append(("H", w))
    # node labels and edge IDs of two different types whose text coincides
    items += [("H", F.H([[1, 2], [2, 3], [1, 3]], ids=["1", "2", "7"])), ("H", F.H([["1", "2"], ["2", "x"]], ids=[1, 2])),
              ("H", F.H([[0, 1, 2], [2, 3]], ids=["0", "3"], nodes=[0, 1, 2, 3])), ("H", F.H([[1.5, 2.0], [2.0, 3.0]], ids=["1.5", "2.0"])),
              ("H", F.H([["1.0", "2"], ["2", "7"]], ids=[1.0, 2.0]))]
    for s in F.directed([1, 2, 3], 2 if q else 2, isolated=not q):
        items.append(("D", s))
        if len(s["edges"]) == 2:
            items.append(("D", decorate(s, 1)))
    for s in F.complexes([1, 2, 3, 4]):
        items.append(("S", s))
        items.append(("S", decorate(s, 2) if len(s["edges"]) else s))
    return items


def run(tier, ev):
    items = family(tier)
    ev.cov["rule"] = ("all hypergraphs over 3 labels <=3 edges and 4 labels <=2 edges (thorough: 4/<=3, 5/2) in three ID / "
                      "attribute decorations, with empty edges and string labels; all directed hypergraphs over 3 labels "
                      "with <=2 edges; every simplicial complex on <=4 vertices; each sent through every converter pair; "
                      "plus every bipartite graph on 3+2 vertices x all 120 vertex insertion orders x 3 link orientations "
                      "x dual for from_bipartite_graph")
    res = explore.parallel_map(_work, items, env.nproc())
    viols = []
    for r in res:
        for mon, msg, spec in r["viols"]:
            viols.append(Violation(PROP, mon, msg, {"check": "c10", "kind": "roundtrip", "spec": spec}, {"converter": mon}))
    nb = 0
    bres = explore.parallel_map(_bip_work, list(range(64)), env.nproc(), chunk=1)
    for mask, r in enumerate(bres):
        nb += r["n"]
        for mon, msg, det in r["viols"]:
            viols.append(Violation(PROP, mon, msg, {"check": "c10", "kind": "bipartite-order", "mask": mask, "detail": det},
                                   {"converter": "from_bipartite_graph"}))
    pairs = {"H": 14, "D": 4, "S": 5}
    evals = sum(pairs[k] for k, _ in items) + nb
    ev.add(states=len(items) + 64, transitions=evals, evaluations=evals, distinct_nontrivial=len(items) + nb)
    ev.cov["networks"] = {k: sum(1 for kk, _ in items if kk == k) for k in "HDS"}
    ev.cov["bipartite_graph_cases"] = nb
    ev.sample({"spec": items[100][1], "converters": "list, dict, bipartite edge list, incidence matrix (sparse/dense, labelled/"
               "positional), bipartite graph, dataframe, standard dict, HIF dict, SimplicialComplex(H)"})
    ev.assumptions += ["hyperedge-list and text-like representations are judged on networks without empty edges",
                       "standard dict judged with nodetype/edgetype=int for all-int labels, no cast for all-str labels"]
    return viols


def replay(case):
    if case["kind"] == "roundtrip":
        r = _work(("x", case["spec"]))
        return [f"{m}: {msg}" for m, msg, _ in r["viols"]]
    r = _bip_work(case["mask"])
    return [f"{m}: {msg}" for m, msg, _ in r["viols"]]
