"""C01 Undirected incidence integrity under every edit history (DESIGN.md 5, E1)."""
from xmc import alphabets as A
from xmc import explore, histcheck, oracles

PROP = "C01"


def specs(tier):
    static = A.hypergraph_static() + A.hypergraph_deviant()
    gens = [A.gen_member_removals, A.gen_swaps, A.gen_shuffles]
    # the same vocabulary over labels / IDs of other types (tuple, string, float; tuple, string, numpy-integer, frozenset, bytes)
    exotic = explore.Spec("hypergraph-histories-exotic-labels",
                          ["xgi.Hypergraph()", "xgi.Hypergraph({ET: [TA, SB], 0: [SB, FC], ES: [FC]})"], A.hypergraph_exotic(),
                          [A.gen_member_removals, A.gen_swaps], invariants=[oracles.undirected_incidence],
                          depth=3, dev_bound=1 if tier == "quick" else 2, namespace=histcheck.base_namespace)
    if tier == "quick":
        return [explore.Spec("hypergraph-histories", histcheck.SEEDS_H, static, gens,
                             invariants=[oracles.undirected_incidence], depth=3, dev_bound=1,
                             namespace=histcheck.base_namespace), exotic]
    return [exotic,
        explore.Spec("hypergraph-histories", histcheck.SEEDS_H, static, gens, invariants=[oracles.undirected_incidence],
                     depth=3, dev_bound=2, namespace=histcheck.base_namespace),
        explore.Spec("hypergraph-histories-deep", histcheck.SEEDS_H[:2], A.hypergraph_trim(),
                     [A.gen_member_removals, A.gen_swaps], invariants=[oracles.undirected_incidence], depth=5, dev_bound=2,
                     namespace=histcheck.base_namespace),
    ]


def run(tier, ev):
    ev.cov["rule"] = ("BFS over histories of Hypergraph mutators and in-place helpers (real calls), states "
                      "de-duplicated by a canonical key of all instance state; distinct_nontrivial = distinct "
                      "canonical states on which the incidence invariant was evaluated")
    ev.cov["bounds"] = {"node_labels": [1, 2, 3], "edge_ids": [0, 1, 2, 5, "e", "auto"], "missing_id": 9}
    ev.assumptions += ["small-scope: labels, depth and deviation bounds as stated", "CPython dict/set semantics"]
    sp = specs(tier)
    v = histcheck.run_specs(PROP, "c01", sp, ev)
    v = list(v) + histcheck.nan_histories(PROP, "c01", "Hypergraph", [oracles.undirected_incidence], ev, depth=2 if tier == "quick" else 3)
    ev.sample({"history": ["xgi.Hypergraph()", "H.add_edge([1, 2])", "H.remove_node(1, remove_empty=False)",
                           "H.add_edges_from([[1, 2], [3, None]])"]})
    return v


def replay(case):
    if case.get("kind") == "nan-history":
        r = histcheck.run_nan_history(case["cls"], case["ops"], [oracles.undirected_incidence])
        return [f"{r[0]}: {r[1]}"] if r else []
    tier = "thorough"
    for s in specs(tier):
        if s.name == case["spec"]:
            return histcheck.replay_history(s, case)
    return []
