"""C06 Views and statistics are live and mutually consistent (DESIGN.md 5 C06; E1 + E2).

Every canonical state reached by a structural alphabet is an input; at each state a *twin* is rebuilt with views,
stats and a multi-stat created at the initial state and held across all mutations, and everything is compared with
set-theoretic definitions computed from members()/memberships()."""
import itertools
import math

from xmc import alphabets as A
from xmc import canon as C
from xmc import explore, histcheck

PROP = "C06"

ORDER_EXEMPT = ("H.merge_duplicate_edges", "H.cleanup", "xgi.", "shuffle(")


def _eq(a, b):
    if a is None or b is None:
        # pandas / numpy render a missing value (None) as NaN
        o = b if a is None else a
        return o is None or (isinstance(o, float) and math.isnan(o))
    if isinstance(a, float) or isinstance(b, float):
        try:
            if math.isnan(a) and math.isnan(b):
                return True
        except TypeError:
            return False
        return abs(a - b) <= 1e-9 * max(1.0, abs(a), abs(b))
    return a == b


def _deq(a, b):
    return list(a) == list(b) and all(_eq(a[k], b[k]) for k in a)


class Rep:
    def __init__(self, ctx):
        self.out = []
        op = ctx.op or ctx.history[-1]
        self.tags = {"method": op.split("(", 1)[0]}

    def bad(self, mon, msg):
        if len(self.out) < 6:
            self.out.append((mon, msg, dict(self.tags)))


def check_stat(rep, label, stat, expected, ids):
    """One statistic: all output formats agree with `expected` and follow view order `ids`."""
    try:
        d = stat.asdict()
        if not _deq(d, {i: expected[i] for i in ids}):
            rep.bad("stat-value", f"{label}.asdict() = {d}, expected {({i: expected[i] for i in ids})}")
            return
        l = stat.aslist()
        if len(l) != len(ids) or not all(_eq(x, expected[i]) for x, i in zip(l, ids)):
            rep.bad("stat-format", f"{label}.aslist() = {l} does not follow view order {ids} of {d}")
        a = stat.asnumpy().tolist()
        if len(a) != len(ids) or not all(_eq(x, expected[i]) for x, i in zip(a, ids)):
            rep.bad("stat-format", f"{label}.asnumpy() = {a} does not follow view order {ids} of {d}")
        s = stat.aspandas()
        tup = any(isinstance(i, tuple) for i in ids)  # pandas turns tuple labels into a MultiIndex: values only
        if (not tup and list(s.index) != list(ids)) or not all(_eq(x, expected[i]) for x, i in zip(s.tolist(), ids)):
            rep.bad("stat-format", f"{label}.aspandas() index {list(s.index)} values {s.tolist()} but view order "
                    f"is {ids} with values {d}")
        for i in ids:
            if not _eq(stat[i], expected[i]):
                rep.bad("stat-format", f"{label}[{i!r}] = {stat[i]!r}, expected {expected[i]!r}")
        if dict(stat.items()) != d and not all(_eq(dict(stat.items())[i], d[i]) for i in ids):
            rep.bad("stat-format", f"{label}.items() disagrees with asdict()")
        if len(stat) != len(ids):
            rep.bad("stat-format", f"len({label}) = {len(stat)} != {len(ids)}")
    except Exception as e:  # noqa: BLE001
        rep.bad("stat-raises", f"{label}: {type(e).__name__}: {e}")


def check_multi(rep, label, view, stats, names, exp, ids):
    try:
        m = view.multi(stats)
        want = {i: {nm: exp[nm][i] for nm in names} for i in ids}
        d = m.asdict()
        if list(d) != list(ids) or any(list(d[i]) != names or not all(_eq(d[i][nm], want[i][nm]) for nm in names) for i in ids):
            rep.bad("multi", f"{label}.asdict() = {d}, expected {want}")
            return
        dt = m.asdict(transpose=True)
        if list(dt) != names or any(list(dt[nm]) != list(ids) or not all(_eq(dt[nm][i], want[i][nm]) for i in ids) for nm in names):
            rep.bad("multi", f"{label}.asdict(transpose=True) = {dt}")
        dl = m.asdict(list)
        if list(dl) != list(ids) or any(not all(_eq(x, want[i][nm]) for x, nm in zip(dl[i], names)) for i in ids):
            rep.bad("multi", f"{label}.asdict(list) = {dl}")
        ll = m.aslist()
        if len(ll) != len(ids) or any(not all(_eq(x, want[i][nm]) for x, nm in zip(row, names)) for row, i in zip(ll, ids)):
            rep.bad("multi", f"{label}.aslist() = {ll}, expected rows in view order {ids}: {want}")
        lt = m.aslist(transpose=True)
        if len(lt) != len(names) or any(len(col) != len(ids) or not all(_eq(x, want[i][nm]) for x, i in zip(col, ids))
                                        for col, nm in zip(lt, names)):
            rep.bad("multi", f"{label}.aslist(transpose=True) = {lt}")
        ld = m.aslist(dict)
        if len(ld) != len(ids) or any(list(r) != names or not all(_eq(r[nm], want[i][nm]) for nm in names) for r, i in zip(ld, ids)):
            rep.bad("multi", f"{label}.aslist(dict) = {ld}")
        if ids:
            arr = m.asnumpy().tolist()
            if len(arr) != len(ids) or any(not all(_eq(x, want[i][nm]) for x, nm in zip(row, names)) for row, i in zip(arr, ids)):
                rep.bad("multi", f"{label}.asnumpy() = {arr}")
        df = m.aspandas()
        vals = df.values.tolist()
        tup = any(isinstance(i, tuple) for i in ids)
        if (not tup and list(df.index) != list(ids)) or list(df.columns) != names or any(
                not _eq(vals[r][c], want[i][nm]) for r, i in enumerate(ids) for c, nm in enumerate(names)):
            rep.bad("multi", f"{label}.aspandas() index {list(df.index)} columns {list(df.columns)} values "
                    f"{df.values.tolist()}, expected index {ids} {want}")
    except Exception as e:  # noqa: BLE001
        rep.bad("stat-raises", f"{label}.multi: {type(e).__name__}: {e}")


CMP = {"eq": lambda v, x: v == x, "neq": lambda v, x: v != x, "lt": lambda v, x: v < x, "gt": lambda v, x: v > x,
       "leq": lambda v, x: v <= x, "geq": lambda v, x: v >= x}


def check_filterby(rep, label, view, statname, expected, ids):
    try:
        for val in (0, 1, 2):
            for mode, f in CMP.items():
                got = list(view.filterby(statname, val, mode))
                want = [i for i in ids if f(expected[i], val)]
                if got != want:
                    rep.bad("filterby", f"{label}.filterby({statname!r}, {val}, {mode!r}) = {got}, expected {want}")
                    return
        got = list(view.filterby(statname, (1, 2), "between"))
        want = [i for i in ids if 1 <= expected[i] <= 2]
        if got != want:
            rep.bad("filterby", f"{label}.filterby({statname!r}, (1, 2), 'between') = {got}, expected {want}")
        got = list(view.filterby(statname, 1, lambda v, x: v % 2 == x))
        want = [i for i in ids if expected[i] % 2 == 1]
        if got != want:
            rep.bad("filterby", f"{label}.filterby({statname!r}, 1, <odd>) = {got}, expected {want}")
        got = list(view.filterby(getattr(view, statname), 1, "geq"))
        want = [i for i in ids if expected[i] >= 1]
        if got != want:
            rep.bad("filterby", f"{label}.filterby(<stat object>, 1, 'geq') = {got}, expected {want}")
    except Exception as e:  # noqa: BLE001
        rep.bad("stat-raises", f"{label}.filterby: {type(e).__name__}: {e}")


def check_filterby_attr(rep, label, view, attrs, ids, attr, numeric):
    try:
        for missing in (None, 1):
            vals = {i: attrs[i].get(attr, missing) for i in ids}
            for val in (1, "r", 2.0):
                for mode in ("eq", "neq"):
                    got = list(view.filterby_attr(attr, val, mode, missing=missing))
                    want = [i for i in ids if vals[i] is not None and CMP[mode](vals[i], val)]
                    if got != want:
                        rep.bad("filterby-attr", f"{label}.filterby_attr({attr!r}, {val!r}, {mode!r}, missing={missing}) "
                                f"= {got}, expected {want} (attribute values {vals})")
                        return
            if numeric and all(v is None or isinstance(v, (int, float)) for v in vals.values()):
                for mode in ("lt", "gt", "leq", "geq"):
                    got = list(view.filterby_attr(attr, 1.5, mode, missing=missing))
                    want = [i for i in ids if vals[i] is not None and CMP[mode](vals[i], 1.5)]
                    if got != want:
                        rep.bad("filterby-attr", f"{label}.filterby_attr({attr!r}, 1.5, {mode!r}, missing={missing}) = "
                                f"{got}, expected {want} (attribute values {vals})")
                        return
                got = list(view.filterby_attr(attr, (1, 2), "between", missing=missing))
                want = [i for i in ids if vals[i] is not None and 1 <= vals[i] <= 2]
                if got != want:
                    rep.bad("filterby-attr", f"{label}.filterby_attr({attr!r}, (1, 2), 'between') = {got}, expected {want}")
    except Exception as e:  # noqa: BLE001
        rep.bad("stat-raises", f"{label}.filterby_attr: {type(e).__name__}: {e}")


_SLOW = ("clique_eigenvector_centrality", "h_eigenvector_centrality", "z_eigenvector_centrality", "node_edge_centrality",
         "katz_centrality", "local_simplicial_fraction", "local_edit_simpliciality", "local_face_edit_simpliciality")


def all_stats_formats(rep, H):
    """Every statistic of the stats module for this kind of view (found by introspection): its output formats agree
    with each other and follow view order; where the package offers a function of the same name, both agree."""
    import inspect

    import xgi

    directed = type(H).__name__ == "DiHypergraph"
    for vname, modname in (("nodes", "dinodestats" if directed else "nodestats"), ("edges", "diedgestats" if directed else "edgestats")):
        view = getattr(H, vname)
        ids = list(view)
        mod = getattr(xgi.stats, modname)
        for sname, fn in sorted(vars(mod).items()):
            if sname.startswith("_") or not inspect.isfunction(fn) or fn.__module__ != mod.__name__ or sname in _SLOW:
                continue
            try:
                st = getattr(view, sname)
                d = st.asdict()
            except Exception:  # noqa: BLE001 - a statistic undefined on this input
                continue
            try:
                if list(d) != ids:
                    rep.bad("stat-format", f"{vname}.{sname}.asdict() keys {list(d)} do not follow view order {ids}")
                    continue
                l = st.aslist()
                if len(l) != len(ids) or not all(_eq(x, d[i]) if not isinstance(x, dict) else x == d[i] for x, i in zip(l, ids)):
                    rep.bad("stat-format", f"{vname}.{sname}.aslist() = {l} disagrees with asdict() {d}")
                if sname != "attrs":
                    a = st.asnumpy().tolist()
                    if len(a) != len(ids) or not all(_eq(x, d[i]) for x, i in zip(a, ids)):
                        rep.bad("stat-format", f"{vname}.{sname}.asnumpy() = {a} disagrees with asdict() {d}")
                    s = st.aspandas()
                    tup = any(isinstance(i, tuple) for i in ids)
                    if (not tup and list(s.index) != ids) or not all(_eq(x, d[i]) for x, i in zip(s.tolist(), ids)):
                        rep.bad("stat-format", f"{vname}.{sname}.aspandas() index {list(s.index)} values {s.tolist()} disagree with "
                                f"asdict() {d}")
                f = getattr(xgi, sname, None)
                if f is not None and vname == "nodes" and not directed and sname not in ("degree", "attrs"):
                    try:
                        fd = f(H)
                    except Exception:  # noqa: BLE001
                        fd = None
                    if isinstance(fd, dict) and (set(fd) != set(d) or not all(_eq(fd[i], d[i]) for i in d)):
                        rep.bad("stat-vs-function", f"nodes.{sname} = {d} but xgi.{sname}(H) = {fd}")
            except Exception as e:  # noqa: BLE001
                rep.bad("stat-raises", f"{vname}.{sname}: {type(e).__name__}: {e}")


def undirected_definitions(rep, H):
    nodes, edges = list(H.nodes), list(H.edges)
    mem = {e: set(m) for e, m in H.edges.members(dtype=dict).items()}
    ms = {n: set(m) for n, m in H.nodes.memberships().items()}
    nattr = {n: dict(H.nodes[n]) for n in nodes}
    eattr = {e: dict(H.edges[e]) for e in edges}
    if H.num_nodes != len(nodes) or H.num_edges != len(edges) or len(H) != len(nodes):
        rep.bad("counts", f"num_nodes/num_edges/len = {H.num_nodes, H.num_edges, len(H)} but views list {len(nodes)}, {len(edges)}")
    if H.edges.members() != [mem[e] for e in edges]:
        rep.bad("members-list", "members() (list) does not follow edge view order")
    deg = {n: len(ms[n]) for n in nodes}
    size = {e: len(mem[e]) for e in edges}
    check_stat(rep, "nodes.degree", H.nodes.degree, deg, nodes)
    check_stat(rep, "edges.size", H.edges.size, size, edges)
    check_stat(rep, "edges.order", H.edges.order, {e: size[e] - 1 for e in edges}, edges)
    if sum(deg.values()) != sum(size.values()):
        rep.bad("handshake", f"sum of degrees {sum(deg.values())} != sum of sizes {sum(size.values())}")
    exp_multi = {"degree": deg}
    for k in (0, 1, 2):
        dk = {n: sum(1 for e in ms[n] if len(mem[e]) == k + 1) for n in nodes}
        check_stat(rep, f"nodes.degree(order={k})", H.nodes.degree(order=k), dk, nodes)
        if k == 1:
            exp_multi["degree(order=1)"] = dk
    wvals = [eattr[e].get("w", 1) for e in edges]
    if all(isinstance(w, (int, float)) and not isinstance(w, bool) for w in wvals):
        dw = {n: sum(eattr[e].get("w", 1) for e in ms[n]) for n in nodes}
        check_stat(rep, "nodes.degree(weight='w')", H.nodes.degree(weight="w"), dw, nodes)
        dwo = {n: sum(eattr[e].get("w", 1) for e in ms[n] if len(mem[e]) == 2) for n in nodes}
        check_stat(rep, "nodes.degree(order=1, weight='w')", H.nodes.degree(order=1, weight="w"), dwo, nodes)
    exp_emulti = {"size": size}
    for d in (1, 2):
        sd = {e: sum(1 for n in mem[e] if deg[n] == d) for e in edges}
        check_stat(rep, f"edges.size(degree={d})", H.edges.size(degree=d), sd, edges)
        check_stat(rep, f"edges.order(degree={d})", H.edges.order(degree=d), {e: sd[e] - 1 for e in edges}, edges)
        if d == 1:
            exp_emulti["size(degree=1)"] = sd
    check_multi(rep, "nodes", H.nodes, ["degree", H.nodes.degree(order=1)], ["degree", "degree(order=1)"], exp_multi, nodes)
    check_multi(rep, "edges", H.edges, [H.edges.size, H.edges.size(degree=1)], ["size", "size(degree=1)"], exp_emulti, edges)
    check_stat(rep, "nodes.attrs('c')", H.nodes.attrs("c"), {n: nattr[n].get("c") for n in nodes}, nodes)
    check_stat(rep, "edges.attrs('w', missing=0)", H.edges.attrs("w", missing=0), {e: eattr[e].get("w", 0) for e in edges}, edges)
    check_filterby(rep, "nodes", H.nodes, "degree", deg, nodes)
    check_filterby(rep, "edges", H.edges, "size", size, edges)
    check_filterby_attr(rep, "nodes", H.nodes, nattr, nodes, "c", False)
    check_filterby_attr(rep, "edges", H.edges, eattr, edges, "w", True)
    # filtered views: stats and further filtering restricted to the view, in view order
    try:
        fv = H.nodes.filterby("degree", 1, "geq")
        fids = [n for n in nodes if deg[n] >= 1]
        if list(fv) != fids:
            rep.bad("filtered-view", f"filtered node view {list(fv)} != {fids}")
        else:
            check_stat(rep, "filtered nodes.degree", fv.degree, deg, fids)
            got = list(fv.filterby("degree", 2, "lt"))
            if got != [n for n in fids if deg[n] < 2]:
                rep.bad("filtered-view", f"filterby on a filtered view = {got}")
            sub = list(H.nodes([n for n in nodes[:2]]))
            if sub != nodes[:2]:
                rep.bad("filtered-view", f"H.nodes(bunch) = {sub}, expected {nodes[:2]}")
        fe = H.edges.filterby("size", 2, "geq")
        feids = [e for e in edges if size[e] >= 2]
        if list(fe) != feids:
            rep.bad("filtered-view", f"filtered edge view {list(fe)} != {feids}")
        else:
            check_stat(rep, "filtered edges.size", fe.size, size, feids)
            if fe.members() != [mem[e] for e in feids]:
                rep.bad("filtered-view", "members() of a filtered edge view does not follow its order")
    except Exception as e:  # noqa: BLE001
        rep.bad("stat-raises", f"filtered views: {type(e).__name__}: {e}")
    # set-theoretic definitions
    try:
        for n in nodes:
            for s in (1, 2):
                want = {m for m in nodes if m != n and len(ms[n] & ms[m]) >= s}
                got = H.nodes.neighbors(C.fresh(n), s) if s != 1 else H.nodes.neighbors(C.fresh(n))  # IDs named by value
                if set(got) != want:
                    rep.bad("neighbors", f"nodes.neighbors({n!r}, s={s}) = {got}, expected {want}")
        for e in edges:
            for s in (1, 2):
                want = {f for f in edges if f != e and len(mem[e] & mem[f]) >= s}
                got = H.edges.neighbors(C.fresh(e), s)
                if set(got) != want:
                    rep.bad("neighbors", f"edges.neighbors({e!r}, s={s}) = {got}, expected {want}")
        for k in range(0, min(len(nodes), 4) + 1):
            for sub in itertools.combinations(nodes[:4], k):
                want = [e for e in edges if mem[e] == set(sub)]
                got = list(H.edges.lookup([C.fresh(x) for x in sub]))
                if got != want:
                    rep.bad("lookup", f"edges.lookup({list(sub)}) = {got}, expected {want}")
        for k in range(0, min(len(edges), 3) + 1):
            for sub in itertools.combinations(edges[:4], k):
                want = [n for n in nodes if ms[n] == set(sub)]
                got = list(H.nodes.lookup([C.fresh(x) for x in sub]))
                if got != want:
                    rep.bad("lookup", f"nodes.lookup({list(sub)}) = {got}, expected {want}")
        for label, view, table, ids in (("edges", H.edges, mem, edges), ("nodes", H.nodes, ms, nodes)):
            classes = {}
            for i in ids:
                classes.setdefault(frozenset(table[i]), []).append(i)
            got = list(view.duplicates())
            if len(got) != len(set(got)):
                rep.bad("duplicates", f"{label}.duplicates() lists an ID twice: {got}")
            for fs, cl in classes.items():
                k = len([i for i in got if i in cl])
                if k != len(cl) - 1:
                    rep.bad("duplicates", f"{label}.duplicates() = {got}: class {cl} of equal sets should contribute "
                            f"{len(cl) - 1} IDs, contributes {k}")
        want = [n for n in nodes if deg[n] == 0]
        if list(H.nodes.isolates()) != want:
            rep.bad("isolates", f"isolates() = {list(H.nodes.isolates())}, expected {want}")
        want = [n for n in nodes if not any(len(mem[e]) >= 2 for e in ms[n])]
        if list(H.nodes.isolates(ignore_singletons=True)) != want:
            rep.bad("isolates", f"isolates(ignore_singletons=True) = {list(H.nodes.isolates(ignore_singletons=True))}, expected {want}")
        want = [e for e in edges if size[e] == 1]
        if list(H.edges.singletons()) != want:
            rep.bad("singletons", f"singletons() = {list(H.edges.singletons())}, expected {want}")
        want = [e for e in edges if size[e] == 0]
        if list(H.edges.empty()) != want:
            rep.bad("empty", f"empty() = {list(H.edges.empty())}, expected {want}")
        want = [e for e in edges if not any(f != e and mem[e] <= mem[f] for f in edges)]
        got = list(H.edges.maximal(strict=True))
        if got != want:
            rep.bad("maximal", f"maximal(strict=True) = {got}, expected {want}; members {mem}")
        want = [e for e in edges if all(mem[f] == mem[e] for f in edges if mem[e] <= mem[f])]
        got = list(H.edges.maximal())
        if got != want:
            rep.bad("maximal", f"maximal() = {got}, expected {want}; members {mem}")
    except Exception as e:  # noqa: BLE001
        rep.bad("view-raises", f"view query raised {type(e).__name__}: {e}")


def directed_definitions(rep, H):
    nodes, edges = list(H.nodes), list(H.edges)
    dm = {e: (set(t), set(h)) for e, (t, h) in H.edges.dimembers(dtype=dict).items()}
    dms = {n: (set(i), set(o)) for n, (i, o) in H.nodes.dimemberships().items()}
    eattr = {e: dict(H.edges[e]) for e in edges}
    nattr = {n: dict(H.nodes[n]) for n in nodes}
    if H.num_nodes != len(nodes) or H.num_edges != len(edges) or len(H) != len(nodes):
        rep.bad("counts", "num_nodes/num_edges/len disagree with the views")
    mem = {e: dm[e][0] | dm[e][1] for e in edges}
    ms = {n: dms[n][0] | dms[n][1] for n in nodes}
    if {e: set(m) for e, m in H.edges.members(dtype=dict).items()} != mem:
        rep.bad("members", "members() != tail | head")
    if {n: set(m) for n, m in H.nodes.memberships().items()} != ms:
        rep.bad("members", "memberships() != in | out memberships")
    # incidence-derived expectations: node n has out-membership e iff n in tail(e); in-membership iff n in head(e)
    ind = {n: sum(1 for e in edges if n in dm[e][1]) for n in nodes}
    outd = {n: sum(1 for e in edges if n in dm[e][0]) for n in nodes}
    deg = {n: sum(1 for e in edges if n in mem[e]) for n in nodes}
    check_stat(rep, "nodes.in_degree", H.nodes.in_degree, ind, nodes)
    check_stat(rep, "nodes.out_degree", H.nodes.out_degree, outd, nodes)
    check_stat(rep, "nodes.degree", H.nodes.degree, deg, nodes)
    for k in (0, 1):
        check_stat(rep, f"nodes.degree(order={k})", H.nodes.degree(order=k),
                   {n: sum(1 for e in edges if n in mem[e] and len(mem[e]) == k + 1) for n in nodes}, nodes)
        check_stat(rep, f"nodes.in_degree(order={k})", H.nodes.in_degree(order=k),
                   {n: sum(1 for e in edges if n in dm[e][1] and len(mem[e]) == k + 1) for n in nodes}, nodes)
        check_stat(rep, f"nodes.out_degree(order={k})", H.nodes.out_degree(order=k),
                   {n: sum(1 for e in edges if n in dm[e][0] and len(mem[e]) == k + 1) for n in nodes}, nodes)
    wvals = [eattr[e].get("w", 1) for e in edges]
    if all(isinstance(w, (int, float)) and not isinstance(w, bool) for w in wvals):
        check_stat(rep, "nodes.in_degree(weight='w')", H.nodes.in_degree(weight="w"),
                   {n: sum(eattr[e].get("w", 1) for e in edges if n in dm[e][1]) for n in nodes}, nodes)
        check_stat(rep, "nodes.out_degree(weight='w')", H.nodes.out_degree(weight="w"),
                   {n: sum(eattr[e].get("w", 1) for e in edges if n in dm[e][0]) for n in nodes}, nodes)
    size = {e: len(mem[e]) for e in edges}
    ts = {e: len(dm[e][0]) for e in edges}
    hs = {e: len(dm[e][1]) for e in edges}
    check_stat(rep, "edges.size", H.edges.size, size, edges)
    check_stat(rep, "edges.order", H.edges.order, {e: size[e] - 1 for e in edges}, edges)
    check_stat(rep, "edges.tail_size", H.edges.tail_size, ts, edges)
    check_stat(rep, "edges.head_size", H.edges.head_size, hs, edges)
    check_stat(rep, "edges.tail_order", H.edges.tail_order, {e: ts[e] - 1 for e in edges}, edges)
    check_stat(rep, "edges.head_order", H.edges.head_order, {e: hs[e] - 1 for e in edges}, edges)
    if sum(ind.values()) != sum(hs.values()) or sum(outd.values()) != sum(ts.values()):
        rep.bad("handshake", "sum of in-degrees != sum of head sizes or sum of out-degrees != sum of tail sizes")
    try:
        if {e: set(v) for e, v in H.edges.head(dtype=dict).items()} != {e: dm[e][1] for e in edges}:
            rep.bad("members", "head() disagrees with dimembers()")
        if {e: set(v) for e, v in H.edges.tail(dtype=dict).items()} != {e: dm[e][0] for e in edges}:
            rep.bad("members", "tail() disagrees with dimembers()")
        want = [n for n in nodes if deg[n] == 0]
        if list(H.nodes.isolates()) != want:
            rep.bad("isolates", f"isolates() = {list(H.nodes.isolates())}, expected {want}")
        want = [e for e in edges if size[e] == 0]
        if list(H.edges.empty()) != want:
            rep.bad("empty", f"empty() = {list(H.edges.empty())}, expected {want}")
    except Exception as e:  # noqa: BLE001
        rep.bad("view-raises", f"directed view query raised {type(e).__name__}: {e}")
    check_multi(rep, "nodes", H.nodes, ["in_degree", "out_degree"], ["in_degree", "out_degree"],
                {"in_degree": ind, "out_degree": outd}, nodes)
    check_multi(rep, "edges", H.edges, ["tail_size", "head_size"], ["tail_size", "head_size"],
                {"tail_size": ts, "head_size": hs}, edges)
    check_filterby(rep, "nodes", H.nodes, "in_degree", ind, nodes)
    check_filterby(rep, "edges", H.edges, "size", size, edges)
    check_filterby_attr(rep, "nodes", H.nodes, nattr, nodes, "c", False)
    check_filterby_attr(rep, "edges", H.edges, eattr, edges, "w", True)


class Held:
    """Views / stats created at the initial state and held across all later mutations."""

    def __init__(self, H):
        self.nodes = H.nodes
        self.edges = H.edges
        self.directed = type(H).__name__ == "DiHypergraph"
        self.deg = H.nodes.degree
        self.size = H.edges.size
        self.multi = H.nodes.multi(["degree", "in_degree"] if self.directed else ["degree", H.nodes.degree(order=1)])
        # touch them once so that any memoisation has something stale to serve
        self.deg.asdict(), self.size.asdict(), self.multi.asdict(), list(self.nodes), list(self.edges)


def touch(H):
    """Call the view / stat queries once and discard the results: warms anything a function might remember about
    this network object, so that the evaluation at the final state would expose an answer computed from an earlier
    structure."""
    try:
        directed = type(H).__name__ == "DiHypergraph"
        n, e = H.nodes, H.edges
        n.degree.asdict(), e.size.asdict(), e.order.aslist(), list(n), list(e), H.num_nodes, H.num_edges
        n.memberships(), e.members(), e.members(dtype=dict)
        n.degree(order=1).asdict(), e.size(degree=1).asdict()
        n.multi(["degree"]).asdict(), n.degree.aspandas(), e.size.asnumpy()
        n.filterby("degree", 1, "geq"), e.filterby("size", 2), n.isolates(), e.empty()
        if directed:
            n.in_degree.asdict(), n.out_degree.asdict(), e.head_size.asdict(), e.tail_size.asdict(), n.dimemberships(), e.dimembers()
        else:
            e.singletons(), e.maximal(), e.maximal(strict=True), e.duplicates(), n.duplicates(), n.isolates(ignore_singletons=True)
            for x in list(n)[:3]:
                n.neighbors(x), n.neighbors(x, 2)
            for x in list(e)[:3]:
                e.neighbors(x)
            e.lookup(list(n)[:2]), n.lookup(list(e)[:1])
    except Exception:  # noqa: BLE001
        pass


def inv_views(ctx):
    rep = Rep(ctx)
    spec = ctx.spec
    hist = ctx.history if ctx.op is None else ctx.history + (ctx.op,)
    try:
        twin = eval(hist[0], ctx.ns)
        held = Held(twin)
        touch(twin)
        for expr in hist[1:]:
            explore.apply_op(ctx.ns, twin, expr)
            touch(twin)
        H = ctx.obj
        nodes, edges = list(H.nodes), list(H.edges)
        if list(held.nodes) != list(twin.nodes) or list(held.edges) != list(twin.edges) or list(twin.nodes) != nodes \
                or list(twin.edges) != edges:
            rep.bad("held-view", f"views held since the initial state list nodes {list(held.nodes)} / edges "
                    f"{list(held.edges)}; current IDs are {nodes} / {edges}")
        else:
            if held.deg.asdict() != twin.nodes.degree.asdict() or held.deg.asdict() != H.nodes.degree.asdict():
                rep.bad("held-stat", f"degree stat held since the initial state reports {held.deg.asdict()}, current "
                        f"degrees are {H.nodes.degree.asdict()}")
            if held.size.asdict() != H.edges.size.asdict():
                rep.bad("held-stat", f"size stat held since the initial state reports {held.size.asdict()}, current "
                        f"sizes are {H.edges.size.asdict()}")
            fresh = twin.nodes.multi(["degree", "in_degree"] if held.directed else ["degree", twin.nodes.degree(order=1)])
            if held.multi.asdict() != fresh.asdict():
                rep.bad("held-stat", f"multi stat held since the initial state reports {held.multi.asdict()}, a fresh "
                        f"one {fresh.asdict()}")
            for n in nodes:
                if n not in held.nodes or held.nodes[n] != H.nodes[n]:
                    rep.bad("held-view", f"held node view disagrees on node {n!r}")
        # insertion order: surviving IDs keep their relative order and precede the IDs created by this call
        if ctx.pre is not None and ctx.op is not None and not ctx.op.startswith(ORDER_EXEMPT):
            for kind, old, new in (("nodes", ctx.pre["nodes"], nodes), ("edges", ctx.pre["edges"], edges)):
                surv = [i for i in old if i in set(new)]
                created = [i for i in new if i not in set(old)]
                if new != surv + created:
                    rep.bad("insertion-order", f"{ctx.op}: {kind} listed as {new}; before the call {old} "
                            f"(survivors should keep their order and precede new IDs)")
        all_stats_formats(rep, twin)
        for obj, tag in ((H, ""), (twin, "[object queried at every earlier state of its history] ")):
            k = len(rep.out)
            if held.directed:
                directed_definitions(rep, obj)
            else:
                undirected_definitions(rep, obj)
            if tag:
                rep.out[k:] = [(m, tag + msg, t) for m, msg, t in rep.out[k:]]
    except Exception as e:  # noqa: BLE001
        rep.bad("api-raises", f"evaluating views/stats raised {type(e).__name__}: {e}")
    return rep.out


def _no_np(ops):
    """Without the numpy-integer ID: `np.int64(3) == (1, 'e')` broadcasts to an array, so plain `==` / `in` between a numpy
    scalar ID and a tuple ID is not a truth value - in this oracle's own list comparisons as anywhere else.  Numpy IDs are
    exercised by C01-C05 and C07, whose oracles compare through dictionaries."""
    return [o for o in ops if "NP3" not in o and "np." not in o and "NP127" not in o and "BIGF" not in o]  # BIGF: pandas renders 1e16 and 1e16 + 1 alike


def _structural(ops):
    drop = ("become(", "H.cleanup", "xgi.", "H.__setitem__", "H.set_node_attributes(5", "H.update(nodes", "H.clear(remove_net_attr",
            "H.add_edges_from(5)", "H.merge_duplicate_edges(rename='tuple', merge_rule='union')",
            "H.merge_duplicate_edges(rename='new', merge_rule='intersection')")
    return [o for o in ops if not o.startswith(drop)]


def specs(tier):
    from checks import c02, c03

    q = tier == "quick"
    depth = 2 if q else 3
    sp = [
        explore.Spec("hypergraph-views", histcheck.SEEDS_H, _structural(A.hypergraph_static()) + A.hypergraph_deviant()[:8],
                     [A.gen_member_removals, A.gen_swaps], invariants=[inv_views], depth=depth, dev_bound=1,
                     namespace=histcheck.base_namespace),
        explore.Spec("dihypergraph-views", c02.SEEDS, _structural(A.dihypergraph_static()) + A.dihypergraph_deviant()[:6],
                     [A.gen_dimember_removals], invariants=[inv_views], depth=depth, dev_bound=1,
                     namespace=histcheck.base_namespace),
        explore.Spec("simplicialcomplex-views", c03.SEEDS, _structural(A.simplicial_static())[:45],
                     [A.gen_simplex_removals], invariants=[inv_views], depth=depth, dev_bound=1,
                     namespace=histcheck.base_namespace),
        # labels / IDs of other types (tuple, string, float; tuple, string, numpy integer, frozenset, bytes)
        explore.Spec("hypergraph-views-exotic-labels", ["xgi.Hypergraph()", "xgi.Hypergraph({ET: [TA, SB], 0: [SB, FC], ES: [FC]})"],
                     _no_np(_structural(A.hypergraph_exotic())), [A.gen_member_removals], invariants=[inv_views], depth=2, dev_bound=1,
                     namespace=histcheck.base_namespace),
        explore.Spec("dihypergraph-views-exotic-labels", ["xgi.DiHypergraph()", "xgi.DiHypergraph({ET: ([TA], [SB]), 0: ([SB, FC], [TA])})"],
                     _no_np(_structural(A.dihypergraph_exotic())), [A.gen_dimember_removals], invariants=[inv_views], depth=2, dev_bound=1,
                     namespace=histcheck.base_namespace),
        explore.Spec("simplicialcomplex-views-exotic-labels", ["xgi.SimplicialComplex()", "xgi.SimplicialComplex({ET: [TA, SB], 5: [SB, FC]})"],
                     _no_np(_structural(A.simplicial_exotic())), [A.gen_simplex_removals], invariants=[inv_views], depth=2, dev_bound=1,
                     namespace=histcheck.base_namespace),
    ]
    return sp


def run(tier, ev):
    ev.cov["rule"] = ("every canonical state reached by BFS over a structural alphabet is an input; at each state a twin "
                      "rebuilt with views/stats/multi-stat held since the initial state is compared with the current "
                      "structure, and every stat output format, filter mode, and view query is compared with its "
                      "set-theoretic definition computed from members()/memberships()")
    ev.assumptions += ["numeric equality up to 1e-9", "duplicates/maximal/isolates(ignore_singletons) judged on full views only"]
    v = histcheck.run_specs(PROP, "c06", specs(tier), ev)
    ev.sample({"history": ["xgi.Hypergraph()", "H.add_edge([3])", "H.add_edge([1, 2])", "H.remove_node(1, remove_empty=False)"]})
    return v


def replay(case):
    for s in specs("thorough"):
        if s.name == case["spec"]:
            return histcheck.replay_history(s, case)
    return []
