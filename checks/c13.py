"""C13 Boundary operators form a chain complex (DESIGN.md 5 C13; E2 over complexes x label kinds x orientations)."""
import itertools
import warnings

import numpy as np

from xmc import env, explore, families as F
from xmc.evidence import Violation

PROP = "C13"


def closure(gens):
    out = set()
    for g in gens:
        g = sorted(g, key=repr)
        for k in range(1, len(g) + 1):
            for c in itertools.combinations(g, k):
                if k >= 2 or len(g) == 1:
                    out.add(frozenset(c))
    return out


def label_variants(spec):
    """int labels; string labels; mixed int/str; explicit string simplex IDs for every simplex; reversed vertices."""
    out = [("ints", spec)]
    nodes = spec["nodes"]
    out.append(("strings", F.relabel(spec, node_map={n: "v%d" % (9 - n) for n in nodes})))
    mixed = {n: (n if i % 2 == 0 else "s%d" % n) for i, n in enumerate(sorted(nodes))}
    out.append(("mixed", F.relabel(spec, node_map=mixed)))
    # every simplex of the closure added explicitly, small to large, with explicit (string / decreasing int) IDs
    simp = sorted(closure([m for _, m in spec["edges"]]), key=lambda s: (len(s), sorted(s)))
    if simp:
        ids = [("x%d" % i if i % 2 else 100 - i) for i in range(len(simp))]
        out.append(("explicit-ids", F.S([sorted(s) for s in simp], nodes=list(nodes), ids=ids)))
    out.append(("reversed", F.relabel(spec, reverse_nodes=True, reverse_members=True)))
    # only the generating simplices given, under explicit integer IDs in decreasing order (the faces get automatic IDs
    # during construction), as a dict and as (members, id) pairs
    m = len(spec["edges"])
    if m:
        out.append(("generators-decreasing-ids", F.relabel(spec, edge_ids=[3 * (m - i) + 1 for i in range(m)])))
        out.append(("generators-bulk-dict", dict(F.relabel(spec, edge_ids=[2 * (m - i) for i in range(m)]), bulk="dict")))
        out.append(("generators-bulk-pairs", dict(F.relabel(spec, edge_ids=[2 * (m - i) for i in range(m)]), bulk="pairs")))
    # numeric labels of several types inside one simplex (ints with larger and smaller floats, numpy with python ints):
    # every branch must order the vertices of a simplex the same way
    srt = sorted(nodes)
    out.append(("int-float mix", F.relabel(spec, node_map={n: (n if i % 2 == 0 else n + 0.5) for i, n in enumerate(srt)})))
    out.append(("float-int mix", F.relabel(spec, node_map={n: (n - 0.5 if i % 2 == 0 else n) for i, n in enumerate(srt)})))
    out.append(("floats", F.relabel(spec, node_map={n: n / 4 for n in srt})))
    out.append(("numpy-int mix", F.relabel(spec, node_map={n: (np.int64(n) if i % 2 == 0 else n) for i, n in enumerate(srt)})))
    out.append(("negative ints", F.relabel(spec, node_map={n: n - 3 for n in srt}, reverse_nodes=True)))
    return out


def orientation_menu(ids, cap):
    k = len(ids)
    if cap < 0:  # large complexes: two structured assignments next to the default
        yield {i: 1 for i in ids}
        yield {i: (j % 2) for j, i in enumerate(ids)}
        return
    if k <= cap:
        for bits in itertools.product((0, 1), repeat=k):
            yield dict(zip(ids, bits))
    else:
        yield {i: 0 for i in ids}
        yield {i: 1 for i in ids}
        yield {i: (j % 2) for j, i in enumerate(ids)}
        for f in ids:
            yield {i: (1 if i == f else 0) for i in ids}


def components(nodes, simplices):
    parent = {n: n for n in nodes}

    def find(x):
        while parent[x] != x:
            parent[x] = parent[parent[x]]
            x = parent[x]
        return x

    for s in simplices:
        s = list(s)
        for a in s[1:]:
            parent[find(a)] = find(s[0])
    return len({find(n) for n in nodes})


def check_complex(S, cap):
    import xgi

    viols = []
    n_or = 0
    mem = {e: frozenset(m) for e, m in S.edges.members(dtype=dict).items()}
    nodes = list(S.nodes)
    dim = max([len(m) - 1 for m in mem.values()], default=0)
    oriented = [e for e, m in mem.items() if len(m) >= 2]
    ncomp = components(nodes, mem.values())

    def bad(mon, msg, ori):
        if len(viols) < 4:
            viols.append((mon, msg, {k if isinstance(k, (int, str)) else repr(k): v for k, v in ori.items()}))

    menus = [None] + list(orientation_menu(oriented, cap))
    for ori in menus:
        n_or += 1
        o = ori if ori is not None else {}
        Bs = {}
        try:
            for k in range(0, dim + 2):
                B, rd, cd = xgi.boundary_matrix(S, k, orientations=ori, index=True)
                B0 = xgi.boundary_matrix(S, k, orientations=ori)
                if not np.array_equal(B, B0):
                    bad("index-flag", f"boundary_matrix(order={k}) differs between index=True/False", o)
                Bs[k] = (np.asarray(B), rd, cd)
        except Exception as e:  # noqa: BLE001
            bad("boundary-raises", f"boundary_matrix raised {type(e).__name__}: {e}", o)
            continue
        # the same assignment given with other value types (the docstring documents bools; numpy scalars arise when the
        # assignment comes out of an array): the matrices must not depend on the type that spells 0 / 1
        if ori is not None:
            for vt in (bool, np.int64, np.bool_):
                typed = {e: vt(v) for e, v in ori.items()}
                try:
                    for k in range(0, dim + 2):
                        Bt = np.asarray(xgi.boundary_matrix(S, k, orientations=typed))
                        if not np.array_equal(Bt, Bs[k][0]):
                            bad("orientation-type", f"boundary_matrix(order={k}) with {vt.__name__}-valued orientations "
                                f"{typed} = {Bt.tolist()}, with int values {Bs[k][0].tolist()}", o)
                except Exception as e:  # noqa: BLE001
                    bad("boundary-raises", f"boundary_matrix with {vt.__name__}-valued orientations raised {type(e).__name__}: {e}", o)
        for k in range(1, dim + 2):
            B, rd, cd = Bs[k]
            cols = [e for e, m in mem.items() if len(m) == k + 1]
            rows = nodes if k == 1 else [e for e, m in mem.items() if len(m) == k]
            if B.shape != (len(rows), len(cols)) or sorted(map(repr, rd.values())) != sorted(map(repr, rows)) or \
                    sorted(map(repr, cd.values())) != sorted(map(repr, cols)):
                bad("shape", f"boundary_matrix(order={k}) shape {B.shape} / index maps {rd} {cd}; expected rows {rows} cols {cols}", o)
                continue
            for j in range(B.shape[1]):
                col = B[:, j]
                nz = np.nonzero(col)[0]
                faces = {frozenset(c) for c in itertools.combinations(mem[cd[j]], k)}
                got = {(frozenset([rd[i]]) if k == 1 else mem[rd[i]]) for i in nz}
                if len(nz) != k + 1 or not np.all(np.abs(col[nz]) == 1) or got != faces:
                    bad("column", f"boundary_matrix(order={k}) column of simplex {cd[j]!r} = {set(mem[cd[j]])}: non-zeros "
                        f"{[(rd[i], col[i]) for i in nz]}, expected +-1 exactly at its {k + 1} faces", o)
        for k in range(0, dim + 1):
            A, B = Bs[k][0], Bs[k + 1][0]
            if A.shape[1] != B.shape[0]:
                bad("shape", f"B_{k} has {A.shape[1]} columns but B_{k + 1} has {B.shape[0]} rows", o)
                continue
            # align: columns of B_k and rows of B_{k+1} must index the same simplices in the same order
            if k >= 1 and [Bs[k][2][i] for i in range(A.shape[1])] != [Bs[k + 1][1][i] for i in range(B.shape[0])]:
                bad("shape", f"column index of B_{k} and row index of B_{k + 1} differ", o)
                continue
            P = A @ B
            if P.size and np.any(P != 0):
                bad("chain", f"B_{k} @ B_{k + 1} != 0: {P.tolist()} (orientations {o})", o)
        try:
            for k in range(0, dim + 1):
                L = np.asarray(xgi.hodge_laplacian(S, k, orientations=ori))
                if L.size:
                    if not np.array_equal(L, L.T):
                        bad("hodge", f"hodge_laplacian(order={k}) is not symmetric", o)
                    w = np.linalg.eigvalsh(L)
                    if w.min() < -1e-9 * max(1.0, np.abs(L).max()):
                        bad("hodge", f"hodge_laplacian(order={k}) has eigenvalue {w.min()}", o)
                    if k == 0:
                        ker = int(np.sum(np.abs(w) < 1e-9))
                        if ker != ncomp:
                            bad("hodge-kernel", f"dim ker L_0 = {ker} but the complex has {ncomp} connected components", o)
                    Bk, Bk1 = Bs[k][0], Bs[k + 1][0]
                    if Bk.shape[1] == L.shape[0] and not np.allclose(L, Bk.T @ Bk + Bk1 @ Bk1.T):
                        bad("hodge", f"hodge_laplacian(order={k}) != B_k^T B_k + B_k+1 B_k+1^T", o)
        except Exception as e:  # noqa: BLE001
            bad("boundary-raises", f"hodge_laplacian raised {type(e).__name__}: {e}", o)
    return n_or, viols


_CAP = 8


def _build(spec):
    """F.build, or - for specs marked bulk - one bulk call that hands over all generating simplices with their IDs."""
    import xgi

    how = spec.get("bulk")
    if not how:
        return F.build(spec)
    S = xgi.SimplicialComplex()
    S.add_nodes_from(spec["nodes"])
    if how == "dict":
        S.add_simplices_from({i: list(m) for i, m in spec["edges"]})
    else:
        S.add_simplices_from([(list(m), i) for i, m in spec["edges"]])
    return S


def _work(item):
    kind, spec = item
    with warnings.catch_warnings():
        warnings.simplefilter("ignore")
        S = _build(spec)
        # the complex under test must be the one that was asked for: every generating simplex and each of its faces
        pre = []
        want = {x for x in closure([m for _, m in spec["edges"]]) if len(x) >= 2}
        got = {frozenset(m) for m in S.edges.members() if len(m) >= 2}
        if got != want:
            pre.append(("construction", f"the complex built from {[m for _, m in spec['edges']]} (IDs {[i for i, _ in spec['edges']]}) holds "
                        f"{sorted(map(sorted, got), key=repr)[:12]}; missing {sorted(map(sorted, want - got), key=repr)[:6]}, "
                        f"unexpected {sorted(map(sorted, got - want), key=repr)[:6]}", {}))
        if kind == "big":
            n, v = check_complex(S, -1)
            return {"n": n, "viols": [(m, msg, ori, kind, spec) for m, msg, ori in pre + list(v)]}
        n, v = check_complex(S, _CAP)
        v = pre + list(v)
        F.detour(S)  # a maximal simplex removed and re-added under its ID: same complex, different history
        F.morph(S)  # a maximal two-node simplex re-pointed: different complex, same counts
        n2, v2 = check_complex(S, 4)
        F.grow(S)  # a new simplex with a fresh ID
        n3, v3 = check_complex(S, 3)
        v = list(v) + [(m, "[same object re-evaluated after in-place edits (re-added simplex, re-pointed edge)] " + msg, ori) for m, msg, ori in v2]
        v += [(m, "[same object re-evaluated after a further simplex was added] " + msg, ori) for m, msg, ori in v3]
    return {"n": n + n2 + n3, "viols": [(m, msg, ori, kind, spec) for m, msg, ori in v]}


def family(tier):
    items = []
    base = list(F.complexes([1, 2, 3, 4], isolated=True))
    if tier != "quick":
        base += [s for s in F.complexes([1, 2, 3, 4, 5], isolated=False) if 5 in s["nodes"]]
    for s in base:
        for kind, v in label_variants(s):
            if tier == "quick" and kind in ("reversed",) and len(s["edges"]) > 2:
                continue
            items.append((kind, v))
    # a vertex with 130 cofaces, an edge with 130 cofaces: Laplacian diagonals above 127
    items += [("big", c) for c in F.big_complexes()]
    return items


def run(tier, ev):
    global _CAP
    _CAP = 8 if tier == "quick" else 10
    items = family(tier)
    ev.cov["rule"] = (f"every simplicial complex on <=4 labelled vertices (thorough: also all on 5 vertices) x label kinds "
                      f"(ints, strings, mixed int/str, explicit int+string simplex IDs, reversed insertion) x orientation "
                      f"assignments (default None, all 2^k when k <= {_CAP} oriented simplices, otherwise all-0/all-1/parity/"
                      f"single flips), each spelt with int, bool, numpy.int64 and numpy.bool_ values, x every order 0..dim+1; a case is one (complex, labelling, orientation)")
    res = explore.parallel_map(_work, items, env.nproc())
    viols = []
    n = 0
    for r in res:
        n += r["n"]
        for mon, msg, ori, kind, spec in r["viols"]:
            viols.append(Violation(PROP, mon, msg, {"check": "c13", "kind": "complex", "spec": spec, "labels": kind,
                                                    "orientations": ori, "monitor": mon}, {"labels": kind}))
    ev.add(states=len(items), transitions=n, evaluations=n, distinct_nontrivial=n)
    ev.cov["complexes_x_labellings"] = len(items)
    ev.cov["orientation_cap"] = _CAP
    if tier == "quick":
        ev.cov["notes"].append("complexes with more than 8 oriented simplices use the structured orientation family")
    ev.sample({"spec": items[len(items) // 2][1], "labels": items[len(items) // 2][0]})
    ev.assumptions += ["boundary matrices are exact (integer-valued floats): products compared with == 0"]
    return viols


def replay(case):
    r = _work((case["labels"], case["spec"]))
    return [f"{m}: {msg}" for m, msg, _, _, _ in r["viols"] if m == case.get("monitor")]
