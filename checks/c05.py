"""C05 Each edit has exactly its documented effect: step-by-step refinement of the reference models
(DESIGN.md 5 C05, E1 + E3 for random_edge_shuffle)."""
from xmc import alphabets as A
from xmc import canon as C
from xmc import explore, histcheck, refmodel

PROP = "C05"

SKIP_PREFIX = ("H.cleanup", "xgi.")  # in-place library helpers: judged by C19 (derived networks), not here


def _isint(x):
    return isinstance(x, int) and not isinstance(x, bool)


def _liberr(exc):
    import xgi

    return isinstance(exc, (xgi.exception.XGIError, xgi.exception.IDNotFound))


def _cmp(rs, post, tags, op, out):
    if set(rs["nodes"]) != set(post["nodes"]) or len(post["nodes"]) != len(set(post["nodes"])):
        out.append(("nodes", f"{op}: nodes {post['nodes']} but the documentation yields {rs['nodes']}", tags))
    if set(rs["edges"]) != set(post["edges"]) or len(post["edges"]) != len(set(post["edges"])):
        out.append(("edges", f"{op}: edge IDs {post['edges']} but the documentation yields {rs['edges']}", tags))
    elif rs["members"] != post["members"]:
        d = {e: (rs["members"][e], post["members"][e]) for e in rs["members"] if rs["members"][e] != post["members"][e]}
        out.append(("members", f"{op}: members differ (expected, observed): {d}", tags))
    if not out and "memberships" in post:
        want = C.memberships_from_members(post["cls"], post["nodes"], post["members"])
        if want != post["memberships"]:
            d = {n: (want.get(n), post["memberships"].get(n)) for n in set(want) | set(post["memberships"])
                 if want.get(n) != post["memberships"].get(n)}
            out.append(("memberships", f"{op}: the nodes report other memberships than the edges report members "
                        f"(expected from the edge side, observed): {d}", tags))
    if not out:
        if {n: rs["nattr"][n] for n in rs["nodes"]} != post["nattr"]:
            out.append(("node-attrs", f"{op}: node attributes {post['nattr']} but the documentation yields {rs['nattr']}", tags))
        if {e: rs["eattr"][e] for e in rs["edges"]} != post["eattr"]:
            out.append(("edge-attrs", f"{op}: edge attributes {post['eattr']} but the documentation yields {rs['eattr']}", tags))
        if rs["net"] != post["net"]:
            out.append(("net-attrs", f"{op}: network attributes {post['net']} but the documentation yields {rs['net']}", tags))


def _shuffle_preserves(ctx, pre, tags):
    out = []
    op = ctx.op
    try:
        args = eval("(lambda H, ch, *a: a)" + op[len("shuffle"):], {"H": None})
    except Exception:  # noqa: BLE001
        args = ()
    nedges = len(pre["edges"])
    if nedges < 2:
        if not ctx.out.raised:
            out.append(("accepted-invalid", f"{op} on {nedges} edge(s) did not raise", tags))
        return out
    if args and any(a not in pre["members"] for a in args):
        if not ctx.out.raised or not _liberr(ctx.out.exc_obj):
            out.append(("wrong-error", f"{op} with a missing edge ID: {ctx.out.label()}", tags))
        return out
    if ctx.out.raised:
        out.append(("unexpected-raise", f"{op} raised {ctx.out.exc}: {ctx.out.exc_obj}", tags))
        return out
    try:
        post = C.snapshot(ctx.obj)
    except Exception as e:  # noqa: BLE001
        return [("api-raises", f"snapshot after {op}: {type(e).__name__}: {e}", tags)]
    pm, qm = pre["members"], post["members"]
    if post["edges"] != pre["edges"] or post["nodes"] != pre["nodes"]:
        out.append(("shuffle-ids", f"{op} changed the ID lists", tags))
        return out
    if post["nattr"] != pre["nattr"] or post["eattr"] != pre["eattr"] or post["net"] != pre["net"]:
        out.append(("shuffle-attrs", f"{op} changed attributes", tags))
    if {e: len(m) for e, m in pm.items()} != {e: len(m) for e, m in qm.items()}:
        out.append(("shuffle-sizes", f"{op} changed edge sizes: {pm} -> {qm}", tags))

    def deg(mm):
        d = {n: 0 for n in pre["nodes"]}
        for m in mm.values():
            for n in m:
                d[n] = d.get(n, 0) + 1
        return d

    if deg(pm) != deg(qm):
        out.append(("shuffle-degrees", f"{op} changed node degrees: {pm} -> {qm}", tags))
    touched = [e for e in pm if pm[e] != qm[e]]
    if len(touched) > 2 or (args and not set(touched) <= set(args)):
        out.append(("shuffle-untouched", f"{op} altered edges {touched}", tags))
    if len(touched) == 2:
        a, b = touched
        if not (pm[a] & pm[b]) <= (qm[a] & qm[b]):
            out.append(("shuffle-shared", f"{op}: shared nodes {pm[a] & pm[b]} no longer in both edges: {qm[a]}, {qm[b]}", tags))
    return out


def step_refine(ctx):
    out = []
    pre = ctx.pre
    op = ctx.op
    if pre is None or op.startswith(SKIP_PREFIX) or op.startswith("become("):
        return out  # become(...): the history continues on a twin; twins are judged by C07, the later steps here
    method = op.split("(", 1)[0]
    tags = {"method": method, "raised": ctx.out.raised, "cls": pre["cls"]}
    if op.startswith("shuffle("):
        return _shuffle_preserves(ctx, pre, tags)
    if method == "H.random_edge_shuffle":
        try:
            args = eval("(lambda *a: a)" + op[len(method):])
        except Exception:  # noqa: BLE001
            return out
        missing = any(a not in pre["members"] for a in args)
        if missing and len(pre["edges"]) >= 2 and not (ctx.out.raised and _liberr(ctx.out.exc_obj)):
            out.append(("wrong-error", f"{op} with a missing edge ID: {ctx.out.label()}", tags))
        return out  # with all IDs present the call uses the real RNG: judged through the owned-RNG `shuffle(...)` operations
    R = refmodel.model_for(pre["cls"])().load(pre)
    try:
        import numpy as np

        ns = dict(A.NAMESPACE)
        ns.update({"H": R, "aliased": lambda f, m: f(m), "np": np})
        res = eval(op, ns)
    except NameError:
        raise  # a name the alphabet uses is not bound for the model: a harness fault, never a silent skip
    except Exception:  # noqa: BLE001 - the model does not define this call shape
        return out
    if not isinstance(res, refmodel.Res):
        return out
    o = ctx.out
    if res.kind == "unspec":
        return out
    if res.kind == "anyerr":
        if not o.raised:
            out.append(("accepted-invalid", f"{op} should be rejected ({res.why}) but returned", tags))
        return out
    if res.kind == "err":
        if not o.raised:
            out.append(("accepted-invalid", f"{op} should be rejected ({res.why}) but returned", tags))
        elif not _liberr(o.exc_obj):
            out.append(("wrong-error", f"{op} ({res.why}) raised {o.exc}: {o.exc_obj} instead of the library's "
                        f"XGIError/IDNotFound", tags))
        return out
    if o.raised:
        out.append(("unexpected-raise", f"{op} raised {o.exc}: {o.exc_obj} but the documentation defines a result", tags))
        return out
    try:
        post = C.snapshot(ctx.obj)
    except Exception as e:  # noqa: BLE001
        return [("api-raises", f"snapshot after {op}: {type(e).__name__}: {e}", tags)]
    # adopt the implementation's fresh IDs for the pending automatic additions
    if res.autos:
        if pre["cls"] == "SimplicialComplex":
            newimpl = {e: post["members"][e] for e in post["edges"] if e not in R.edge}
            used = set()
            for fs, at, ex in res.autos:
                if ex is not None:
                    R._put(ex, fs, at)
                    continue
                cand = [e for e, m in newimpl.items() if m == fs and e not in used and e not in R.edge]
                if not cand:
                    out.append(("missing-simplex", f"{op}: simplex {set(fs)} should have been added; new simplices: "
                                f"{ {e: set(m) for e, m in newimpl.items()} }", tags))
                    return out
                e = cand[0]
                used.add(e)
                if not _isint(e) or e in pre["members"]:
                    out.append(("auto-id", f"{op}: automatic ID {e!r} is not a fresh integer", tags))
                R._put(e, fs, at)
        else:
            cand = [e for e in post["edges"] if e not in R.edge]
            if len(cand) != len(res.autos):
                out.append(("auto-count", f"{op}: {len(res.autos)} automatic addition(s) expected, new IDs observed: "
                            f"{cand}; before: {pre['edges']}", tags))
                return out
            for e, (m, at) in zip(cand, res.autos):
                if not _isint(e) or e in pre["members"]:
                    out.append(("auto-id", f"{op}: automatic ID {e!r} is not a fresh integer", tags))
                R._put(e, m, at)
    _cmp(R.snap(), post, tags, op, out)
    if res.warn and not o.warns:
        out.append(("missing-warning", f"{op}: the documentation promises a warning, none was emitted", tags))
    return out


def specs(tier):
    from checks import c02, c03

    q = tier == "quick"
    depth = 3
    devb = 1 if q else 2
    sp = [
        explore.Spec("hypergraph-refinement", histcheck.SEEDS_H[:3] if q else histcheck.SEEDS_H,
                     A.hypergraph_static() + A.hypergraph_deviant(), [A.gen_member_removals, A.gen_swaps, A.gen_shuffles],
                     steps=[step_refine], depth=depth, dev_bound=devb, namespace=histcheck.base_namespace),
        explore.Spec("dihypergraph-refinement", c02.SEEDS[:2] if q else c02.SEEDS,
                     A.dihypergraph_static() + A.dihypergraph_deviant(), [A.gen_dimember_removals], steps=[step_refine],
                     depth=depth, dev_bound=devb, namespace=histcheck.base_namespace),
        explore.Spec("simplicialcomplex-refinement", c03.SEEDS[:2] if q else c03.SEEDS,
                     A.simplicial_static() + A.simplicial_deviant(), [A.gen_simplex_removals], steps=[step_refine],
                     depth=depth, dev_bound=devb, namespace=histcheck.base_namespace),
    ]
    # the same vocabulary over labels and IDs of other types (tuple, string, float; tuple / string / numpy-integer IDs)
    xd = 2 if q else 3
    sp += [
        explore.Spec("hypergraph-refinement-exotic-labels", ["xgi.Hypergraph()", "xgi.Hypergraph({ET: [TA, SB], 0: [SB, FC], ES: [FC]})"],
                     A.hypergraph_exotic(), [A.gen_member_removals, A.gen_swaps], steps=[step_refine], depth=xd, dev_bound=devb,
                     namespace=histcheck.base_namespace),
        explore.Spec("dihypergraph-refinement-exotic-labels", ["xgi.DiHypergraph()", "xgi.DiHypergraph({ET: ([TA], [SB]), 0: ([SB, FC], [TA])})"],
                     A.dihypergraph_exotic(), [A.gen_dimember_removals], steps=[step_refine], depth=xd, dev_bound=devb,
                     namespace=histcheck.base_namespace),
        explore.Spec("simplicialcomplex-refinement-exotic-labels", ["xgi.SimplicialComplex()", "xgi.SimplicialComplex({ET: [TA, SB], 5: [SB, FC]})"],
                     A.simplicial_exotic(), [A.gen_simplex_removals], steps=[step_refine], depth=xd, dev_bound=devb,
                     namespace=histcheck.base_namespace),
    ]
    if not q:
        sp += [
            explore.Spec("hypergraph-refinement-deep", histcheck.SEEDS_H[:2], A.hypergraph_trim(),
                         [A.gen_member_removals, A.gen_swaps, A.gen_shuffles], steps=[step_refine], depth=4, dev_bound=2,
                         namespace=histcheck.base_namespace),
            explore.Spec("dihypergraph-refinement-deep", c02.SEEDS[:2], A.dihypergraph_trim(), [A.gen_dimember_removals],
                         steps=[step_refine], depth=4, dev_bound=2, namespace=histcheck.base_namespace),
            explore.Spec("simplicialcomplex-refinement-deep", c03.SEEDS[:2], A.simplicial_trim(), [A.gen_simplex_removals],
                         steps=[step_refine], depth=4, dev_bound=2, namespace=histcheck.base_namespace),
        ]
    return sp


def run(tier, ev):
    ev.cov["rule"] = ("BFS over the full mutator alphabets of the three classes; on every transition the reference model "
                      "(transcribed documentation) is loaded from the pre-state, executes the same call, and the full "
                      "observable post-state is compared (automatic IDs adopted, freshness checked); rejected edits must "
                      "raise XGIError/IDNotFound; double_edge_swap over state-dependent argument menus; "
                      "random_edge_shuffle over every outcome of the owned random source")
    ev.assumptions += ["reference models in /verif/xmc/refmodel.py are the trusted transcription of the docstrings",
                       "cleanup / relabelling / largest-component helpers are judged by C19, not here"]
    v = histcheck.run_specs(PROP, "c05", specs(tier), ev)
    ev.sample({"history": ["xgi.Hypergraph()", "H.add_edges_from({2: [1, 2]}, c='x')"]})
    ev.sample({"history": ["xgi.Hypergraph([[1, 2], [1, 2], [3]])", "H.merge_duplicate_edges(rename='new', merge_rule='union')"]})
    return v


def replay(case):
    for s in specs("thorough"):
        if s.name == case["spec"]:
            return histcheck.replay_history(s, case)
    return []
