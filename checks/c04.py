"""C04 Automatic edge IDs are always fresh; adding never overwrites (DESIGN.md 5, E1 from every provenance)."""
import copy

from xmc import canon as C
from xmc import explore, histcheck
from xmc import provenance as PV

PROP = "C04"

# (expression, additions) - additions: list of "a" (automatic id) or ("x", explicit id), in the order the call adds
H_OPS = [
    ("H.add_edge([1, 2])", ["a"]),
    ("H.add_edge([3])", ["a"]),
    ("H.add_edge([1, 2], idx=0)", [("x", 0)]),
    ("H.add_edge([2, 3], idx=1)", [("x", 1)]),
    ("H.add_edge([1, 3], idx=2)", [("x", 2)]),
    ("H.add_edge([1, 2, 3], idx=5)", [("x", 5)]),
    ("H.add_edge([1, 2], idx=-1)", [("x", -1)]),
    ("H.add_edge([2, 3], idx=2.0)", [("x", 2.0)]),
    ("H.add_edge([1, 3], idx='e')", [("x", "e")]),
    ("H.add_edges_from([[1, 2], [2, 3]])", ["a", "a"]),
    ("H.add_edges_from([([1, 2], 2), ([1, 3], 0)])", [("x", 2), ("x", 0)]),
    ("H.add_edges_from([([1, 2], 7), ([1, 3], 3)])", [("x", 7), ("x", 3)]),
    ("H.add_edges_from([([1, 2], 'e'), ([2, 3], 'e')])", [("x", "e"), ("x", "e")]),
    ("H.add_edges_from([([1, 2], {'w': 1}), ([3], {'w': 2})])", ["a", "a"]),
    ("H.add_edges_from([([1, 2], 4, {'w': 1}), ([2, 3], 1, {})])", [("x", 4), ("x", 1)]),
    ("H.add_edges_from({5: [1, 2], 1: [2]})", [("x", 5), ("x", 1)]),
    ("H.add_weighted_edges_from([(1, 2, 0.5)])", ["a"]),
    ("H.add_node_to_edge(0, 1)", [("x", 0)]),
    ("H.add_node_to_edge(3, 1)", [("x", 3)]),
    ("H.add_node_to_edge(6, 2)", [("x", 6)]),
    ("H.update(edges=[[1, 2]])", ["a"]),
]
H_OTHER = ["H.merge_duplicate_edges(rename='new')", "H.clear()", "H.clear_edges()", "H.remove_edge(0)",
           "H.remove_node(1, strong=True)"]

D_OPS = [
    ("H.add_edge(([1], [2]))", ["a"]),
    ("H.add_edge(([3], []))", ["a"]),
    ("H.add_edge(([1], [2]), idx=0)", [("x", 0)]),
    ("H.add_edge(([2], [3]), idx=1)", [("x", 1)]),
    ("H.add_edge(([1, 3], [2]), idx=2)", [("x", 2)]),
    ("H.add_edge(([1], [2, 3]), idx=5)", [("x", 5)]),
    ("H.add_edge(([1], [2]), idx=-1)", [("x", -1)]),
    ("H.add_edge(([2], [3]), idx=2.0)", [("x", 2.0)]),
    ("H.add_edge(([1], [3]), idx='e')", [("x", "e")]),
    ("H.add_edges_from([([1], [2]), ([2], [3])])", ["a", "a"]),
    ("H.add_edges_from([(([1], [2]), 2), (([1], [3]), 0)])", [("x", 2), ("x", 0)]),
    ("H.add_edges_from([(([1], [2]), 7), (([1], [3]), 3)])", [("x", 7), ("x", 3)]),
    ("H.add_edges_from([(([1], [2]), 'e'), (([2], [3]), 'e')])", [("x", "e"), ("x", "e")]),
    ("H.add_edges_from([(([1], [2]), {'w': 1}), (([3], []), {'w': 2})])", ["a", "a"]),
    ("H.add_edges_from([(([1], [2]), 4, {'w': 1}), (([2], [3]), 1, {})])", [("x", 4), ("x", 1)]),
    ("H.add_edges_from({5: ([1], [2]), 1: ([2], [])})", [("x", 5), ("x", 1)]),
    ("H.add_node_to_edge(0, 1, 'in')", [("x", 0)]),
    ("H.add_node_to_edge(3, 1, 'out')", [("x", 3)]),
    ("H.add_node_to_edge(6, 2, 'in')", [("x", 6)]),
]
D_OTHER = ["H.clear()", "H.remove_edge(0)", "H.remove_node(1, strong=True)"]

S_OPS = [
    ("H.add_simplex([1, 2])", None),
    ("H.add_simplex([7])", None),
    ("H.add_simplex([1, 2, 3])", None),
    ("H.add_simplex([4, 5], idx=0)", None),
    ("H.add_simplex([5, 6], idx=1)", None),
    ("H.add_simplex([4, 5, 6], idx=2)", None),
    ("H.add_simplex([6, 7], idx=-1)", None),
    ("H.add_simplex([7, 8], idx=2.0)", None),
    ("H.add_simplex([8, 9], idx='e')", None),
    ("H.add_simplices_from([[1, 2], [2, 3, 4]])", None),
    ("H.add_simplices_from([([5, 6], 2), ([6, 7], 0)])", None),
    ("H.add_simplices_from([([5, 6, 7], 7), ([8, 9], 3)])", None),
    ("H.add_simplices_from([([1, 2], {'w': 1}), ([3, 9], {'w': 2})])", None),
    ("H.add_simplices_from([([5, 9], 4, {'w': 1}), ([2, 9], 1, {})])", None),
    ("H.add_simplices_from({5: [1, 9], 1: [2, 8]})", None),
    ("H.add_simplices_from([[1, 2, 3, 4]], max_order=1)", None),
    ("H.add_simplices_from([([7, 8, 9], 0)])", None),
    ("H.add_simplices_from([([7, 8, 9], 5, {'w': 1}), ([6, 8, 9], 0, {})])", None),
    ("H.add_simplices_from({0: [7, 8, 9]})", None),
    ("H.add_weighted_simplices_from([(1, 8, 0.5)])", None),
    ("H.close()", None),
]
S_OTHER = ["H.clear()", "H.remove_simplex_id(0)", "H.remove_node(1)"]

SPECMAP = {}
for _ops in (H_OPS, D_OPS, S_OPS):
    for _e, _a in _ops:
        SPECMAP[_e] = _a


def gen_remove_last(H):
    try:
        es = list(H.edges)
    except Exception:  # noqa: BLE001
        return []
    out = []
    if es:
        out.append(f"H.remove_edge({es[-1]!r})" if type(H).__name__ != "SimplicialComplex" else f"H.remove_simplex_id({es[-1]!r})")
    return out


def _isint(x):
    return isinstance(x, int) and not isinstance(x, bool)


def step_fresh(ctx):
    out = []
    pre = ctx.pre
    if pre is None or ctx.op not in SPECMAP and not ctx.op.startswith("H.merge_duplicate_edges"):
        return out
    method = ctx.op.split("(", 1)[0]
    tags = {"method": method, "raised": ctx.out.raised, "provenance": ctx.history[0]}
    try:
        post = C.snapshot(ctx.obj)
    except Exception as e:  # noqa: BLE001
        return [("api-raises", f"snapshot after {ctx.op} raised {type(e).__name__}: {e}", tags)]
    prem, postm = pre["members"], post["members"]
    if ctx.op.startswith("H.merge_duplicate_edges"):
        new = [e for e in post["edges"] if e not in prem]
        # non-duplicate edges must be untouched
        byset = {}
        for e, m in prem.items():
            byset.setdefault(m, []).append(e)
        for m, ids in byset.items():
            if len(ids) == 1 and (ids[0] not in postm or postm[ids[0]] != m or post["eattr"][ids[0]] != pre["eattr"][ids[0]]):
                out.append(("overwrite", f"{ctx.op} altered the non-duplicate edge {ids[0]!r}", tags))
        ndup = sum(1 for ids in byset.values() if len(ids) > 1)
        if not ctx.out.raised and len(new) != ndup:
            out.append(("count", f"{ctx.op}: {ndup} duplicate classes but {len(new)} new IDs {new}", tags))
        return out
    if method == "H.add_node_to_edge" and SPECMAP[ctx.op][0][1] in prem:
        return out  # adds a node to an existing edge: not an edge addition
    # 1. nothing that existed is altered, replaced or removed
    for e in pre["edges"]:
        if e not in postm:
            out.append(("overwrite", f"{ctx.op} removed existing edge {e!r}", tags))
        elif postm[e] != prem[e] or post["eattr"][e] != pre["eattr"][e]:
            out.append(("overwrite", f"{ctx.op} changed existing edge {e!r}: {prem[e]!r}/{pre['eattr'][e]!r} -> "
                        f"{postm[e]!r}/{post['eattr'][e]!r}", tags))
    new = [e for e in post["edges"] if e not in prem]
    adds = SPECMAP[ctx.op]
    if adds is not None:
        present = set(prem)
        explicit = set()
        expect = 0
        collided = False
        for a in adds:
            if a == "a":
                expect += 1
            else:
                explicit.add(a[1])
                if a[1] in present:
                    collided = True
                else:
                    expect += 1
                    present.add(a[1])
        if not ctx.out.raised and len(new) != expect:
            out.append(("count", f"{ctx.op}: expected {expect} new edge(s), observed {len(new)} ({new}); "
                        f"ids before: {pre['edges']}", tags))
        for e in new:
            if e not in explicit and not _isint(e):
                out.append(("auto-id-type", f"{ctx.op}: automatic id {e!r} is not an integer", tags))
        # an explicit ID offered more than once *within one call*: the first entry takes it, the later ones are refused
        # (an edge added earlier in the same call is an existing edge)
        if not ctx.out.raised and method in ("H.add_edges_from",) and len(explicit) < sum(1 for a in adds if a != "a"):
            try:
                arg = eval(ctx.op[len(method):])
                entries = list(arg) if not isinstance(arg, dict) else []
                first = {}
                for ent in entries:
                    if isinstance(ent, tuple) and len(ent) >= 2 and not isinstance(ent[1], dict) and ent[1] not in first:
                        first[ent[1]] = ent[0]
                for i_, m_ in first.items():
                    if i_ in prem or i_ not in postm:
                        continue
                    want = (frozenset(m_[0]), frozenset(m_[1])) if pre["cls"] == "DiHypergraph" else frozenset(m_)
                    if postm[i_] != want:
                        out.append(("overwrite", f"{ctx.op}: ID {i_!r} was given first to {want!r}; after the call it holds "
                                    f"{postm[i_]!r} (a later entry with the same ID replaced it)", tags))
            except Exception:  # noqa: BLE001
                pass
        all_taken = bool(adds) and all(a != "a" and a[1] in prem for a in adds)
        if all_taken and len(adds) > 1 and not ctx.out.raised:
            if not ctx.out.warns:
                out.append(("no-warning", f"{ctx.op}: every explicit ID already present but no warning was emitted", tags))
            if not C.snap_equal(pre, post):
                out.append(("refused-changed", f"{ctx.op}: every explicit ID was already taken, yet the network changed: "
                            f"{C.snap_diff(pre, post)}", tags))
        if collided and len(adds) == 1 and not ctx.out.raised:
            if not ctx.out.warns:
                out.append(("no-warning", f"{ctx.op}: explicit ID already present but no warning was emitted", tags))
            if not C.snap_equal(pre, post):
                out.append(("refused-changed", f"{ctx.op}: refused explicit ID but the network changed: "
                            f"{C.snap_diff(pre, post)}", tags))
    else:
        # simplicial complex: new automatic ids are integers; an existing explicit id is refused with a warning
        # unless the member set already exists (silent no-op)
        import re

        m = re.match(r"H\.add_simplex\((\[.*?\]), idx=(.*)\)$", ctx.op)
        if m and not ctx.out.raised:
            mem, idx = frozenset(eval(m.group(1))), eval(m.group(2))
            if idx in prem and mem not in set(prem.values()):
                if not ctx.out.warns:
                    out.append(("no-warning", f"{ctx.op}: explicit ID already present but no warning", tags))
                if not C.snap_equal(pre, post):
                    out.append(("refused-changed", f"{ctx.op}: refused explicit ID but the network changed", tags))
        mb = re.match(r"H\.add_simplices_from\((.*)\)$", ctx.op)
        if mb and "max_order" not in ctx.op and not ctx.out.raised:
            try:
                arg = eval(mb.group(1))
                recs = [(m_, i_) for i_, m_ in arg.items()] if isinstance(arg, dict) else \
                    [(r[0], r[1]) for r in arg if isinstance(r, tuple) and len(r) >= 2 and not isinstance(r[1], dict)]
            except Exception:  # noqa: BLE001
                recs = []
            have = set(prem.values())
            if recs and len(recs) == len(arg) and all(i_ in prem and frozenset(m_) not in have for m_, i_ in recs):
                # every entry carries an explicit ID that is already taken (and a new node set): all must be refused
                if not ctx.out.warns:
                    out.append(("no-warning", f"{ctx.op}: explicit IDs already present but no warning", tags))
                if not C.snap_equal(pre, post):
                    out.append(("refused-changed", f"{ctx.op}: every explicit ID was already taken, yet the network changed: "
                                f"{C.snap_diff(pre, post)}", tags))
        ex = set()
        for tok in re.findall(r"\], (-?\d+|'\w+')", ctx.op) + re.findall(r"idx=([^,)]+)", ctx.op) + re.findall(r"(\d+): \[", ctx.op):
            try:
                ex.add(eval(tok))
            except Exception:  # noqa: BLE001
                pass
        for e in new:
            if e not in ex and not _isint(e):
                out.append(("auto-id-type", f"{ctx.op}: automatic id {e!r} is not an integer", tags))
    return out


def specs(tier):
    depth = 3 if tier == "quick" else 4
    out = []
    for pre, name, ops, other in (("H:", "hypergraph", H_OPS, H_OTHER), ("D:", "dihypergraph", D_OPS, D_OTHER),
                                  ("S:", "simplicialcomplex", S_OPS, S_OTHER)):
        ok, bad = PV.usable(pre)
        inits = [f"prov({n!r})" for n in ok]
        sp = explore.Spec(f"{name}-ids-from-every-provenance", inits, [e for e, _ in ops] + other, [gen_remove_last],
                          steps=[step_fresh], depth=depth, dev_bound=1, namespace=_ns)
        sp.unusable = bad
        out.append(sp)
    return out


def _ns():
    ns = histcheck.base_namespace()
    ns["prov"] = PV.prov
    return ns


def run(tier, ev):
    ev.cov["rule"] = ("BFS over ID-focused addition/removal alphabets from every provenance (constructor inputs, "
                      "converters, readers, generators, copies, pickles, relabellings) as initial states; step relation: "
                      "no existing edge altered/removed, number of new IDs as expected, automatic IDs integers, existing "
                      "explicit ID refused with a warning and no change")
    sp = specs(tier)
    for s in sp:
        for n, why in s.unusable:
            ev.cov["not_exercised"].append(f"provenance {n}: {why}")
    for n in PV.uncovered_producers():
        ev.cov["not_exercised"].append(f"network-producing function without a provenance entry: {n}"
                                       + (" (needs network access)" if n.startswith("load_") else ""))
    ev.cov["bounds"] = {"explicit_ids": [0, 1, 2, 5, -1, 2.0, "e", 7, 3, 4, 6], "depth": sp[0].depth,
                        "provenances": {s.name: len(s.inits) for s in sp}}
    ev.assumptions += ["small-scope hypothesis on depth and ID menu"]
    v = histcheck.run_specs(PROP, "c04", sp, ev)
    ev.sample({"history": ["prov('H:from_incidence_matrix')", "H.add_edge([1, 2])"]})
    ev.sample({"history": ["prov('H:empty')", "H.add_edges_from([([1, 2], 2), ([1, 3], 0)])", "H.add_edge([3])"]})
    return v


def replay(case):
    for s in specs("thorough"):
        if s.name == case["spec"]:
            return histcheck.replay_history(s, case)
    return []
