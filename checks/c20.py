"""C20 Layouts and drawings represent every node and edge faithfully (DESIGN.md 5 C20; E2 x style shapes).

Drawing is checked at the level of the collections handed to matplotlib (Agg backend): marker offsets, line
segments, polygon vertices - not at the pixel level."""
import itertools
import math
import os
import warnings

import numpy as np

from xmc import env, explore, families as F
from xmc.evidence import Violation

PROP = "C20"


def _finite2(v):
    try:
        a = np.asarray(v, dtype=float)
    except (TypeError, ValueError):
        return False
    return a.shape == (2,) and bool(np.all(np.isfinite(a)))


def check_layouts(H, out, stats):
    import xgi

    nodes = list(H.nodes)
    edges = list(H.edges)
    is_sc = type(H).__name__ == "SimplicialComplex"

    def judge(label, pos, keys):
        stats["n"] += 1
        if not isinstance(pos, dict) or set(pos) != set(keys) or len(pos) != len(keys):
            out.append(("layout-keys", f"{label}: positions for {list(pos) if isinstance(pos, dict) else type(pos)}; expected exactly "
                        f"one per ID {list(keys)}"))
            return
        badv = [k for k, v in pos.items() if not _finite2(v)]
        if badv:
            out.append(("layout-values", f"{label}: position of {badv[0]!r} is {pos[badv[0]]!r}, not a finite 2-vector"))

    calls = [
        ("random_layout()", lambda: xgi.random_layout(H)),
        ("random_layout(center=(2, 3), seed=1)", lambda: xgi.random_layout(H, center=(2, 3), seed=1)),
        ("circular_layout()", lambda: xgi.circular_layout(H)),
        ("circular_layout(center=[1, 1], radius=2)", lambda: xgi.circular_layout(H, center=[1, 1], radius=2)),
        ("spiral_layout()", lambda: xgi.spiral_layout(H)),
        ("spiral_layout(center=[1, 2], resolution=0.5, equidistant=True)", lambda: xgi.spiral_layout(H, center=[1, 2], resolution=0.5, equidistant=True)),
    ]
    if nodes:
        calls += [
            ("pairwise_spring_layout(seed=1)", lambda: xgi.pairwise_spring_layout(H, seed=1)),
            ("pairwise_spring_layout(seed=2, k=0.5)", lambda: xgi.pairwise_spring_layout(H, seed=2, k=0.5)),
            ("barycenter_spring_layout(seed=1)", lambda: xgi.barycenter_spring_layout(H, seed=1)),
            ("barycenter_spring_layout(return_phantom_graph=True, seed=1)[0]", lambda: xgi.barycenter_spring_layout(H, return_phantom_graph=True, seed=1)[0]),
            ("weighted_barycenter_spring_layout(seed=1)", lambda: xgi.weighted_barycenter_spring_layout(H, seed=1)),
            ("weighted_barycenter_spring_layout(return_phantom_graph=True, seed=3, k=1)[0]",
             lambda: xgi.weighted_barycenter_spring_layout(H, return_phantom_graph=True, seed=3, k=1)[0]),
            ("barycenter_kamada_kawai_layout()", lambda: xgi.barycenter_kamada_kawai_layout(H)),
        ]
    for label, f in calls:
        try:
            pos = f()
        except Exception as e:  # noqa: BLE001
            stats["n"] += 1
            out.append(("layout-raises", f"{label} raised {type(e).__name__}: {e}"))
            continue
        judge(label, pos, nodes)
    if nodes and not is_sc:
        for label, f in (("bipartite_spring_layout(seed=1)", lambda: xgi.bipartite_spring_layout(H, seed=1)),
                         ("bipartite_spring_layout(seed=1, k=0.3)", lambda: xgi.bipartite_spring_layout(H, seed=1, k=0.3))):
            try:
                npos, epos = f()
            except Exception as e:  # noqa: BLE001
                stats["n"] += 1
                out.append(("layout-raises", f"{label} raised {type(e).__name__}: {e}"))
                continue
            judge(label + " nodes", npos, nodes)
            judge(label + " edges", epos, edges)
    mem = H.edges.members(dtype=dict)
    if nodes and all(len(m) for m in mem.values()):
        # positions as float arrays, as integer grid points (tuples of Python ints, integer arrays) and as float lists
        variants = {
            "float arrays": {n: np.array([math.cos(1.7 * i) * (i + 1), math.sin(1.7 * i) + 0.3 * i]) for i, n in enumerate(nodes)},
            "integer tuples": {n: (i % 3, i // 3) for i, n in enumerate(nodes)},
            "integer arrays": {n: np.array([2 * i, i * i % 5]) for i, n in enumerate(nodes)},
            "float lists": {n: [0.5 * i, 1.0 / (i + 1)] for i, n in enumerate(nodes)},
            "float32 arrays": {n: np.array([i / 3, i % 2], dtype=np.float32) for i, n in enumerate(nodes)},
        }
        for vname, pos in variants.items():
            stats["n"] += 1
            try:
                ep = xgi.edge_positions_from_barycenters(H, pos)
                if set(ep) != set(edges):
                    out.append(("barycenter", f"edge_positions_from_barycenters keys {list(ep)} != edges {edges}"))
                else:
                    for e, m in mem.items():
                        want = np.mean([np.asarray(pos[n], dtype=float) for n in m], axis=0)
                        if not np.allclose(np.asarray(ep[e], dtype=float), want, atol=1e-6):
                            out.append(("barycenter", f"edge_positions_from_barycenters[{e!r}] = {ep[e]} with positions given as "
                                        f"{vname}; the mean of its members' positions is {want}"))
                            break
            except Exception as e:  # noqa: BLE001
                out.append(("layout-raises", f"edge_positions_from_barycenters (positions as {vname}) raised {type(e).__name__}: {e}"))


def check_directed(D, out, stats):
    """The layout / drawing entry points that accept a DiHypergraph: barycentres over tail | head, bipartite layout with
    one position per node and per edge, draw_bipartite."""
    import xgi

    nodes, edges = list(D.nodes), list(D.edges)
    dm = D.edges.dimembers(dtype=dict)
    mem = {e: set(t) | set(h) for e, (t, h) in dm.items()}
    if nodes and all(len(m) for m in mem.values()):
        pos = {n: np.array([math.cos(1.7 * i) * (i + 1), math.sin(1.7 * i) + 0.3 * i]) for i, n in enumerate(nodes)}
        stats["n"] += 1
        try:
            ep = xgi.edge_positions_from_barycenters(D, pos)
            if set(ep) != set(edges):
                out.append(("barycenter", f"edge_positions_from_barycenters(directed) keys {list(ep)} != edges {edges}"))
            else:
                for e, m in mem.items():
                    want = np.mean([pos[n] for n in m], axis=0)
                    if not np.allclose(ep[e], want, atol=1e-12):
                        out.append(("barycenter", f"edge_positions_from_barycenters(directed)[{e!r}] = {ep[e]}, mean over "
                                    f"tail | head = {sorted(m, key=repr)} is {want}"))
                        break
        except Exception as e:  # noqa: BLE001
            out.append(("layout-raises", f"edge_positions_from_barycenters(directed) raised {type(e).__name__}: {e}"))
    if nodes and edges and all(len(m) for m in mem.values()):
        stats["n"] += 1
        try:
            ax, cols = xgi.draw_bipartite(D, ax=_ax())
            nc, ec = cols[0], cols[1]
            if len(nc.get_offsets()) != len(nodes) or len(ec.get_offsets()) != len(edges):
                out.append(("markers", f"draw_bipartite(directed): {len(nc.get_offsets())} node markers / {len(ec.get_offsets())} edge "
                            f"markers for {len(nodes)} nodes / {len(edges)} edges"))
        except Exception as e:  # noqa: BLE001
            out.append(("draw-raises", f"draw_bipartite(directed) raised {type(e).__name__}: {e}"))


_FIG = None


def _ax():
    global _FIG
    import matplotlib

    matplotlib.use("Agg")
    import matplotlib.pyplot as plt

    if _FIG is None:
        _FIG = plt.subplots()
    fig, ax = _FIG
    ax.clear()
    return ax


def _key(p):
    return (round(float(p[0]), 9), round(float(p[1]), 9))


def _multiset(it):
    d = {}
    for x in it:
        d[x] = d.get(x, 0) + 1
    return d


def expected_geometry(H, pos, max_order):
    """(offsets in node order, multiset of segments, multiset of polygon vertex sets)."""
    mem = H.edges.members(dtype=dict)
    if type(H).__name__ == "SimplicialComplex":
        sets = {frozenset(m) for m in mem.values()}
        if max_order:
            sets = {s for s in sets if len(s) - 1 <= max_order}
        maximal = [s for s in sets if not any(s < o for o in sets)]
        polys = [s for s in maximal if len(s) >= 3]
        lines = [s for s in sets if len(s) == 2]
    else:
        mo = max_order if max_order else max([len(m) for m in mem.values()], default=1) - 1
        polys = [frozenset(m) for m in mem.values() if 3 <= len(m) <= mo + 1]
        lines = [frozenset(m) for m in mem.values() if len(m) == 2]
    segs = _multiset(frozenset(_key(pos[n]) for n in s) for s in lines)
    pls = _multiset(frozenset(_key(pos[n]) for n in s) for s in polys)
    return [_key(pos[n]) for n in H.nodes], segs, pls


def _unrendered(nc, dc):
    """Why some node marker / dyad line of the returned collections would not be painted (matplotlib skips points whose
    offset is masked and draws nothing for a non-finite or non-positive size / a non-finite width), or ''."""
    offs = nc.get_offsets()
    if np.ma.getmaskarray(offs).any():
        return f"{int(np.ma.getmaskarray(offs).any(axis=1).sum())} of {len(offs)} node markers are masked (not painted)"
    sizes = np.asarray(nc.get_sizes(), dtype=float)
    if sizes.size and (not np.all(np.isfinite(sizes)) or np.any(sizes <= 0)):
        return f"node marker sizes {sizes.tolist()} are not all finite and positive"
    lws = np.asarray(nc.get_linewidths(), dtype=float)
    if lws.size and not np.all(np.isfinite(lws)):
        return f"node marker line widths {lws.tolist()} are not all finite"
    if dc is not None and len(dc.get_segments()):
        dl = np.asarray(dc.get_linewidths(), dtype=float)
        if dl.size and (not np.all(np.isfinite(dl)) or np.any(dl <= 0)):
            return f"dyad line widths {dl.tolist()} are not all finite and positive"
    return ""


def check_drawing(H, out, stats, tier):
    import xgi

    nodes = list(H.nodes)
    mem = H.edges.members(dtype=dict)
    if not any(len(m) >= 2 for m in mem.values()):
        return
    is_sc = type(H).__name__ == "SimplicialComplex"
    # distinct, generic positions so that vertex sets identify members
    pos = {n: (math.cos(2.399963 * i) * (1 + 0.37 * i), math.sin(2.399963 * i) * (1 + 0.37 * i)) for i, n in enumerate(nodes)}
    n2 = len(nodes)
    dy = [e for e, m in mem.items() if len(m) == 2]
    styles = [
        ("defaults", {}),
        ("scalars", {"node_size": 10, "node_fc": "red", "node_lw": 2, "dyad_lw": 3, "dyad_color": "blue", "edge_fc": "green"}),
        ("lists", {"node_size": [5 + i for i in range(n2)], "node_lw": [1 + i for i in range(n2)],
                   "node_fc": ["red" if i % 2 else "blue" for i in range(n2)]}),
        ("dicts", {"node_size": {n: 5 + i for i, n in enumerate(nodes)}, "node_fc": {n: float(i) for i, n in enumerate(nodes)}}),
        ("stats", {"node_size": H.nodes.degree, "node_fc": H.nodes.degree, "node_lw": H.nodes.degree}),
    ]
    # per-ID style values that are all equal (a regular hypergraph drawn with node_size=degree is the everyday case): the
    # rescaling of sizes / widths must not degenerate
    styles.append(("constant-lists", {"node_size": [7] * n2, "node_lw": [2] * n2, "node_fc": [1.0] * n2}))
    styles.append(("constant-dicts", {"node_size": {n: 4 for n in nodes}, "node_lw": {n: 1 for n in nodes}}))
    styles.append(("constant-arrays", {"node_size": np.full(n2, 3.0), "node_lw": np.full(n2, 0.5)}))
    if dy:
        styles.append(("constant-dyad-lists", {"dyad_lw": [2] * len(dy), "dyad_color": [0.5] * len(dy)}))
    if not is_sc:
        styles.append(("edge-stats", {"dyad_lw": H.edges.filterby("order", 1).size if dy else 1.5, "edge_fc": None}))
    mos = [None, 1, 2, 3]
    for (sname, kw), mo in itertools.product(styles, mos):
        if tier == "quick" and sname not in ("defaults", "scalars") and mo in (1, 3):
            continue
        for hull in ((False, True) if (not is_sc and sname == "defaults" and mo is None) else (False,)):
            stats["n"] += 1
            ax = _ax()
            label = f"draw(max_order={mo}, hull={hull}, style={sname})"
            try:
                kws = dict(kw)
                if hull:
                    kws["hull"] = True
                ax, (nc, dc, ec) = xgi.draw(H, pos=pos, ax=ax, max_order=mo, **kws)
            except Exception as e:  # noqa: BLE001
                out.append(("draw-raises", f"{label} raised {type(e).__name__}: {e}"))
                continue
            want_off, want_seg, want_pol = expected_geometry(H, pos, mo)
            off = [_key(p) for p in np.asarray(nc.get_offsets())]
            if off != want_off:
                out.append(("markers", f"{label}: marker offsets {off} are not the node positions in node order {want_off}"))
            why = _unrendered(nc, dc)
            if why:
                out.append(("markers", f"{label}: {why}"))
            segs = _multiset(frozenset(_key(p) for p in s) for s in dc.get_segments())
            if segs != want_seg:
                out.append(("lines", f"{label}: {sum(segs.values())} line segments {list(segs)}; expected one per two-node edge "
                            f"{list(want_seg)}"))
            if not hull:
                pls = _multiset(frozenset(_key(p) for p in path.vertices) for path in ec.get_paths())
                if pls != want_pol:
                    out.append(("polygons", f"{label}: polygons {[sorted(p) for p in pls]} (x{list(pls.values())}); expected one "
                                f"per larger edge with exactly its members' positions {[sorted(p) for p in want_pol]}"))
            elif len(ec.get_paths()) != sum(want_pol.values()):
                out.append(("polygons", f"{label}: {len(ec.get_paths())} hulls for {sum(want_pol.values())} larger edges"))
    # the component functions
    stats["n"] += 1
    try:
        ax = _ax()
        ax, nc = xgi.draw_nodes(H, pos=pos, ax=ax)
        if [_key(p) for p in np.asarray(nc.get_offsets())] != [_key(pos[n]) for n in nodes]:
            out.append(("markers", "draw_nodes: marker offsets are not the node positions in node order"))
        for kwn, kwv in (("node_size", [6] * len(nodes)), ("node_lw", [1.5] * len(nodes)), ("node_size", H.nodes.degree)):
            ax, nc2 = xgi.draw_nodes(H, pos=pos, ax=_ax(), **{kwn: kwv})
            why = _unrendered(nc2, None)
            if why or len(nc2.get_offsets()) != len(nodes):
                out.append(("markers", f"draw_nodes({kwn}=<{type(kwv).__name__} of {'equal' if kwn != 'node_size' or isinstance(kwv, list) else 'degree'} values>): "
                            f"{why or 'wrong marker count'}"))
        if is_sc:
            ax, (dc, ec) = xgi.draw_simplices(H, pos=pos, ax=_ax())
        else:
            ax, (dc, ec) = xgi.draw_hyperedges(H, pos=pos, ax=_ax())
        _, want_seg, want_pol = expected_geometry(H, pos, None)
        segs = _multiset(frozenset(_key(p) for p in s) for s in dc.get_segments())
        pls = _multiset(frozenset(_key(p) for p in path.vertices) for path in ec.get_paths())
        if segs != want_seg or pls != want_pol:
            out.append(("lines" if segs != want_seg else "polygons",
                        f"{'draw_simplices' if is_sc else 'draw_hyperedges'}: segments {list(segs)} polygons {list(pls)}; expected "
                        f"{list(want_seg)} / {list(want_pol)}"))
    except Exception as e:  # noqa: BLE001
        out.append(("draw-raises", f"draw_nodes / draw_hyperedges / draw_simplices raised {type(e).__name__}: {e}"))
    # default positions (pos=None): must succeed and give one marker per node
    stats["n"] += 1
    try:
        ax, (nc, dc, ec) = xgi.draw(H, ax=_ax())
        if len(nc.get_offsets()) != len(nodes):
            out.append(("markers", f"draw(pos=None): {len(nc.get_offsets())} markers for {len(nodes)} nodes"))
    except Exception as e:  # noqa: BLE001
        out.append(("draw-raises", f"draw(pos=None) raised {type(e).__name__}: {e}"))


_TIER = "quick"


def _work(item):
    kind, spec = item
    out = []
    stats = {"n": 0}
    with warnings.catch_warnings():
        warnings.simplefilter("ignore")
        try:
            H = F.build(spec)
            if kind == "directed":
                check_directed(H, out, stats)
                F.detour(H)
                F.morph(H)
                check_directed(H, out, stats)
            if kind in ("layout", "both"):
                check_layouts(H, out, stats)
            if kind in ("draw", "both"):
                check_drawing(H, out, stats, _TIER)
                F.detour(H)
                F.morph(H)
                k = len(out)
                check_layouts(H, out, stats)
                check_drawing(H, out, stats, "quick")
                out[k:] = [(m, "[same object after remove+re-add of its first node and edge] " + msg) for m, msg in out[k:]]
                # one node replaced by a node with a new label (same counts, another node set): default positions and
                # anything else kept per node label must be recomputed
                if F.rename(H) is not None:
                    k = len(out)
                    check_layouts(H, out, stats)
                    check_drawing(H, out, stats, "quick")
                    out[k:] = [(m, "[same object after one node was replaced by a node with a new label] " + msg) for m, msg in out[k:]]
        except RecursionError:
            raise
        except Exception as e:  # noqa: BLE001
            import traceback

            out.append(("raises", f"{type(e).__name__}: {e} at {traceback.format_exc().splitlines()[-3].strip()}"))
    return {"n": stats["n"], "viols": [(m, msg, kind, spec) for m, msg in out[:4]]}


def family(tier):
    q = tier == "quick"
    items = []
    reps = F.representatives()
    base = list(F.undirected([1, 2, 3, 4], 3))
    pick = base[::31] if q else base[::3]
    for s in reps + pick + F.wide():
        items.append(("both", s))
    for k, s in enumerate(pick[:: (2 if q else 1)]):
        m = len(s["edges"])
        items.append(("both", F.relabel(s, node_map={n: "v%d" % (9 - n) for n in s["nodes"]}, edge_ids=["e%d" % (m - i) for i in range(m)],
                                        reverse_nodes=True)))
        items.append(("both", F.relabel(s, node_map={1: 7, 2: 3, 3: 9, 4: 1}, edge_ids=[10 * (m - i) for i in range(m)])))
    # label types other than int / str
    for s in (reps[4], reps[6], reps[11], reps[13], reps[14]):
        for _, nm in F.exotic_label_maps(s["nodes"]):
            items.append(("both", F.relabel(s, node_map=nm)))
    # layouts are cheap: the whole family
    for s in (base[::4] if q else base):
        items.append(("layout", s))
    comps = list(F.complexes([1, 2, 3, 4]))
    for k, s in enumerate(comps):
        if q and k % 3:
            continue
        items.append(("both", s))
        if k % 6 == 0 and s["nodes"]:
            items.append(("both", F.relabel(s, node_map={n: "v%d" % (9 - n) for n in s["nodes"]})))
    # directed hypergraphs (tail and head overlapping, disjoint, empty on one side) for the entry points that accept them
    for s in list(F.directed([1, 2, 3], 2, isolated=True))[::(9 if q else 1)]:
        items.append(("directed", s))
    items.append(("directed", F.D([(["x", "y"], ["y", "z", "w"]), ([10], [10, 11, 12])], nodes=["x", "y", "z", "w", 10, 11, 12, "iso"])))
    items.append(("both", F.S([[1, 2, 3, 4, 5]], nodes=[1, 2, 3, 4, 5, 6])))
    items.append(("both", F.H([[1, 2, 3, 4, 5], [5, 6], [6, 7, 8]], nodes=[1, 2, 3, 4, 5, 6, 7, 8, 9])))
    return items


def run(tier, ev):
    global _TIER
    _TIER = tier
    os.environ.setdefault("MPLBACKEND", "Agg")
    items = family(tier)
    ev.cov["rule"] = ("hypergraphs (hand-picked representatives + a stride through all hypergraphs over 4 labels with <=3 edges; "
                      "int, string and shuffled labels; isolated nodes, singletons, multi-edges) and every simplicial complex on "
                      "<=4 vertices (quick: a third) x every layout function with its options x draw / draw_nodes / "
                      "draw_hyperedges / draw_simplices on the Agg backend x max_order {None,1,2,3} x hull x style arguments "
                      "as scalar / list / dict / stat; a case is one layout or draw call whose result is compared with the network")
    res = explore.parallel_map(_work, items, env.nproc())
    viols = []
    n = 0
    for r in res:
        n += r["n"]
        for mon, msg, kind, spec in r["viols"]:
            viols.append(Violation(PROP, mon, msg, {"check": "c20", "kind": kind, "spec": spec, "monitor": mon}, {"what": mon}))
    ev.add(states=len(items), transitions=n, evaluations=n, distinct_nontrivial=len(items))
    ev.cov["exhaustive"] = tier != "quick"
    if tier == "quick":
        ev.cov["caps_hit"].append("quick tier strides through the enumerated families (every 31st hypergraph, every 3rd complex)")
    ev.sample({"spec": items[12][1], "calls": "13 layout calls; draw x max_order x style"})
    ev.assumptions += ["rendering below the collection level (rasterisation) is not checked",
                       "drawing judged on networks with at least one edge of two or more nodes; edge_positions_from_barycenters on "
                       "networks without empty edges"]
    return viols


def replay(case):
    r = _work((case["kind"], case["spec"]))
    return [f"{m}: {msg}" for m, msg, _, _ in r["viols"] if m == case.get("monitor")]
