"""C17 A seed fully determines every stochastic result (DESIGN.md 5 C17; functions x parameters x seeds x
every interleaving of other RNG consumers up to a length bound)."""
import inspect
import itertools
import random
import warnings

import networkx as nx
import numpy as np

from xmc import canon as C
from xmc import env, explore
from xmc.evidence import Violation

PROP = "C17"


def seeded_functions():
    import xgi

    out = []
    for name in sorted(dir(xgi)):
        if name.startswith("_"):
            continue
        f = getattr(xgi, name)
        if not callable(f) or inspect.isclass(f) or inspect.ismodule(f):
            continue
        try:
            if "seed" in inspect.signature(f).parameters:
                out.append(name)
        except (TypeError, ValueError):
            pass
    return out


def _H():
    import xgi

    return xgi.Hypergraph([[0, 1, 2], [2, 3], [3, 4, 5], [0, 5], [1, 4]])


def _H2():
    import xgi

    return xgi.Hypergraph([[0, 1, 2], [0, 1], [1, 2], [0, 2], [3, 4, 5], [3, 4], [4, 5], [3, 5], [2, 3]])


def _H3():
    import xgi

    return xgi.Hypergraph([[0, 1, 2], [2, 3], [3, 4, 5], [5, 6], [6, 7, 0], [1, 4]])


def grids():
    """name -> list of (args, kwargs) parameter tuples (seed is added by the harness)."""
    G = {}
    G["fast_random_hypergraph"] = [((8, [0.4, 0.2]), {}), ((6, 0.5), {"order": 2}), ((6, [1.0, 0.3, 0.0]), {}),
                                   ((5, [0.0, 1.0]), {}), ((1, [0.5]), {}), ((3, [0.5, 0.5, 0.5]), {})]
    # tiny positive probabilities over a huge candidate set (a handful of edges among billions of candidates): the regime
    # where skip lengths are astronomically large
    G["fast_random_hypergraph"] += [((200, [5e-9]), {"order": [4]}), ((3000, [3e-7]), {"order": 1})]
    G["random_hypergraph"] = [((6, [0.4, 0.3]), {}), ((5, [1.0, 0.0]), {}), ((5, [0.0, 0.5]), {}), ((4, [0.5]), {"order": 2})]
    G["chung_lu_hypergraph"] = [(({i: 2 for i in range(6)}, {i: 3 for i in range(4)}), {}),
                                (({i: 1 + i % 3 for i in range(6)}, {i: 2 for i in range(4)}), {})]  # sums differ (warns)
    G["dcsbm_hypergraph"] = [(({i: 2 for i in range(6)}, {i: 3 for i in range(4)}, {i: i % 2 for i in range(6)},
                               {i: i % 2 for i in range(4)}, np.array([[4, 2], [2, 4]])), {})]
    G["watts_strogatz_hypergraph"] = [((10, 3, 4, 1, 0.5), {}), ((8, 2, 2, 0, 1.0), {}), ((8, 3, 2, 1, 0.0), {}), ((9, 3, 4, 2, 1.0), {})]
    G["uniform_hypergraph_configuration_model"] = [(({i: 2 for i in range(9)}, 3), {}),
                                                   # sum of degrees not a multiple of m: the repair branch draws too
                                                   (({i: 2 for i in range(8)}, 3), {}), (({i: 1 + i % 2 for i in range(7)}, 4), {})]
    G["uniform_HSBM"] = [((8, 2, np.array([[0.6, 0.2], [0.2, 0.6]]), [4, 4]), {}),
                         ((7, 2, np.array([[1.0, 0.3], [0.3, 0.0]]), [3, 4]), {}),
                         ((6, 3, np.full((2, 2, 2), 0.3), [2, 4]), {})]
    G["uniform_HPPM"] = [((8, 2, 3, 0.8), {}), ((9, 3, 4, 0.5), {"rho": 0.4}),
                         # degenerate partitions and extreme imbalance: one community empty, epsilon at both ends
                         ((8, 2, 3, 0.5), {"rho": 1.0}), ((8, 2, 3, 0.5), {"rho": 0.0}), ((12, 2, 3, 0.5), {"rho": 0.01}),
                         ((8, 2, 3, 0.0), {}), ((8, 2, 3, 1.0), {}), ((8, 3, 2, 1.0), {"rho": 0.25})]
    G["uniform_erdos_renyi_hypergraph"] = [((8, 3, 0.3), {}), ((6, 2, 0.4), {"multiedges": True}),
                                           ((8, 2, 2.0), {"p_type": "degree"}), ((6, 2, 1.5), {"p_type": "degree", "multiedges": True}),
                                           ((5, 2, 1.0), {}), ((5, 2, 0.0), {}), ((5, 3, 1.0), {"multiedges": True}),
                                           ((5, 5, 0.5), {}), ((6, 2, 0.0), {"p_type": "degree"})]
    G["uniform_erdos_renyi_hypergraph"] += [((300, 5, 1.0), {"p_type": "degree"}), ((2000, 3, 2e-9), {})]
    G["uniform_HPPM"] += [((1000, 4, 5, 0.5), {})]
    G["random_simplicial_complex"] = [((7, [0.4, 0.3]), {}), ((6, [0.5, 0.5, 0.5]), {}), ((5, [1.0, 0.5]), {}), ((5, [0.0, 0.5]), {})]
    G["random_flag_complex"] = [((7, 0.5), {"max_order": 3}), ((6, 1.0), {"max_order": 2}), ((6, 0.0), {"max_order": 2}),
                                ((6, 0.6), {"max_order": None})]
    G["random_flag_complex_d2"] = [((7, 0.5), {}), ((5, 1.0), {}), ((5, 0.0), {})]
    G["flag_complex"] = [((nx.complete_graph(5),), {"max_order": 3, "ps": [0.5, 0.5]}), ((nx.complete_graph(5),), {"max_order": 2}),
                         ((nx.wheel_graph(6),), {"max_order": 2, "ps": [0.7]})]
    G["flag_complex_d2"] = [((nx.complete_graph(5),), {"p2": 0.5}), ((nx.complete_graph(4),), {"p2": 1.0}), ((nx.complete_graph(4),), {"p2": 0.0}),
                            ((nx.complete_graph(4),), {})]
    G["shuffle_hyperedges"] = [((_H(), 1, 0.7), {}), ((_H(), 2, 1.0), {}), ((_H(), 1, 0.0), {}), ((_H2(), 2, 0.5), {})]
    G["random_layout"] = [((_H(),), {})]
    # with and without extra options handed through to the spring solver: a call made with an option must not change
    # what later calls without it return (the last grid entry is what the "same function, other seed" perturbation calls)
    for lay in ("pairwise_spring_layout", "barycenter_spring_layout", "weighted_barycenter_spring_layout", "bipartite_spring_layout"):
        G[lay] = [((_H(),), {}), ((_H(),), {"k": 0.7}), ((_H(),), {"iterations": 2, "threshold": 0.01})]
    import xgi

    star = xgi.Hypergraph([[0, i] for i in range(1, 8)])  # degenerate spectrum: the eigensolver restarts
    chain = xgi.Hypergraph([["a", "b", "c"], ["c", "d", "e"], ["e", "f", "g"], ["g", "h", "i", "j"]])  # equivalent nodes
    G["spectral_clustering"] = [((_H2(),), {"k": 2}), ((_H2(),), {"k": 3}), ((_H3(),), {"k": 3}), ((star,), {"k": 4}),
                                ((star,), {"k": 5}), ((chain,), {"k": 4}), ((chain,), {"k": 3})]
    return G


def norm(r):
    """Exact, comparable rendering of a result."""
    if hasattr(r, "nodes") and hasattr(r, "edges") and hasattr(r, "_net_attr"):
        s = C.snapshot(r)
        return ("net", s["cls"], tuple(s["nodes"]), tuple(s["edges"]),
                tuple(sorted((repr(k), tuple(sorted(map(repr, v if not isinstance(v, tuple) else (sorted(map(repr, v[0])), sorted(map(repr, v[1])))))))
                             for k, v in s["members"].items())))
    if isinstance(r, dict):
        return ("dict", tuple((repr(k), norm(v)) for k, v in r.items()))
    if isinstance(r, np.ndarray):
        return ("arr", r.shape, r.tobytes())
    if isinstance(r, tuple):
        return ("tuple", tuple(norm(x) for x in r if not isinstance(x, nx.Graph)))
    if isinstance(r, (list, set, frozenset)):
        return ("seq", tuple(norm(x) for x in (r if isinstance(r, list) else sorted(r, key=repr))))
    if isinstance(r, (float, np.floating)):
        return ("f", float(r).hex())
    return ("v", repr(r))


def perturbations():
    import xgi

    def p_none():
        pass

    def p_random():
        for _ in range(3):
            random.random()

    def p_np():
        np.random.random(3)

    def p_reseed_random():
        random.seed(12345)

    def p_reseed_np():
        np.random.seed(12345)

    def p_other_xgi():
        with warnings.catch_warnings():
            warnings.simplefilter("ignore")
            xgi.fast_random_hypergraph(5, [0.5], seed=3)
            xgi.random_simplicial_complex(4, [0.5], seed=5)

    def p_default_rng():
        np.random.default_rng().random(2)

    def p_layout():
        with warnings.catch_warnings():
            warnings.simplefilter("ignore")
            xgi.random_layout(_H(), seed=11)

    return {"nothing": p_none, "draw-random": p_random, "draw-numpy": p_np, "reseed-random": p_reseed_random,
            "reseed-numpy": p_reseed_np, "other-seeded-xgi-calls": p_other_xgi, "default_rng-draw": p_default_rng,
            "seeded-layout-call": p_layout}


def _call(name, args, kwargs, seed):
    import copy

    import xgi

    with warnings.catch_warnings():
        warnings.simplefilter("ignore")
        return getattr(xgi, name)(*copy.deepcopy(args), **copy.deepcopy(kwargs), seed=seed)


def _same_other(name, grid, seed):
    """the same function with another seed (and, where the grid has them, other parameters)"""
    a, k = grid[-1]
    try:
        _call(name, a, k, seed + 17)
    except Exception:  # noqa: BLE001
        pass


_TIER = "quick"


def _work(item):
    name, gi, seed = item
    G = grids()
    grid = G[name]
    args, kwargs = grid[gi]
    P = perturbations()
    P["same-function-other-seed"] = lambda: _same_other(name, grid, seed)
    names = list(P)
    L = 1 if _TIER == "quick" else 2
    seqs = [()]
    for l in range(1, L + 1):
        seqs += list(itertools.product(names, repeat=l))
    pres = [(), ("draw-random",), ("reseed-numpy",)] if _TIER != "quick" else [(), ("draw-random",)]
    n = 0
    viols = []
    distinct = set()
    try:
        for pre in pres:
            for p in pre:
                P[p]()
            r1 = norm(_call(name, args, kwargs, seed))
            distinct.add(r1)
            for seq in seqs:
                for p in seq:
                    P[p]()
                r2 = norm(_call(name, args, kwargs, seed))
                n += 1
                if r2 != r1:
                    if len(viols) < 3:
                        viols.append((f"{name}(..., seed={seed}) differs between two calls with identical arguments; before the "
                                      f"first call: {list(pre) or 'nothing'}, between the calls: {list(seq) or 'nothing'}",
                                      {"name": name, "grid": gi, "seed": seed, "pre": list(pre), "seq": list(seq)}))
        # the same *argument objects* handed to several calls (a network built once and randomised / laid out repeatedly):
        # nothing a call leaves behind on its arguments may influence the next result
        import copy

        import xgi

        a2, k2 = copy.deepcopy(args), copy.deepcopy(kwargs)
        with warnings.catch_warnings():
            warnings.simplefilter("ignore")
            f = getattr(xgi, name)
            r1 = norm(f(*a2, **k2, seed=seed))
            for seq in [(), ("draw-random",), ("same-function-other-seed",), ("reseed-numpy",)]:
                for p in seq:
                    P[p]()
                r2 = norm(f(*a2, **k2, seed=seed))
                n += 1
                if r2 != r1 and len(viols) < 3:
                    viols.append((f"{name}(..., seed={seed}) differs between two calls on the *same argument objects*; between the "
                                  f"calls: {list(seq) or 'nothing'}",
                                  {"name": name, "grid": gi, "seed": seed, "pre": [], "seq": list(seq), "shared_args": True}))
    except Exception as e:  # noqa: BLE001
        return {"item": [name, gi, seed], "n": n, "viols": viols, "error": f"{type(e).__name__}: {e}", "distinct": len(distinct)}
    return {"item": [name, gi, seed], "n": n, "viols": viols, "error": None, "distinct": len(distinct)}


def run(tier, ev):
    global _TIER
    _TIER = tier
    fns = seeded_functions()
    G = grids()
    seeds = [0, 1, 2, 42, 2 ** 31 - 1]
    if env.seed() not in seeds:
        seeds.append(env.seed() % (2 ** 32))
    if tier == "quick":
        seeds = [0, 1, 42, 2 ** 31 - 1] + ([env.seed() % (2 ** 32)] if env.seed() not in (0, 1, 42, 2 ** 31 - 1) else [])
    # integer seeds of other types (a seed taken from a numpy array or generator); functions built on random.seed refuse
    # them (TypeError on this Python): such a refusal is recorded as not exercised, an accepted seed must determine the
    # result like any other
    seeds = list(seeds) + [np.int64(5), np.uint8(7)]
    items = []
    for f in fns:
        if f not in G:
            ev.cov["not_exercised"].append(f"{f}: no parameter grid for this seeded function (new function?)")
            continue
        for gi in range(len(G[f])):
            for s in seeds:
                items.append((f, gi, s))
    ev.cov["rule"] = ("every public callable with a `seed` parameter (found by introspection) x parameter grid x seed menu x every "
                      "sequence of length <= 1 (quick) / <= 2 (thorough) of 9 perturbations (draws from / re-seeding of the global "
                      "Python and NumPy generators, other seeded xgi calls, the same function with another seed, default_rng "
                      "draw) executed between two calls, x pre-states before the first call; oracle: the second result equals "
                      "the first exactly; a case is one pair of calls")
    res = explore.parallel_map(_work, items, env.nproc(), chunk=1)
    viols = []
    n = 0
    unsupported = set()
    for r in res:
        n += r["n"]
        if r["error"]:
            if not isinstance(r["item"][2], int) and ("seed" in r["error"] or "random.Random" in r["error"]):
                unsupported.add(r["item"][0])
            else:
                ev.cov["not_exercised"].append(f"{r['item']}: call raised {r['error']}")
        for msg, case in r["viols"]:
            case = dict(case)
            case.update({"check": "c17", "kind": "seed"})
            viols.append(Violation(PROP, "seed-not-determining", msg, case, {"function": case["name"]}))
    ev.add(states=len(items), transitions=n, evaluations=n, distinct_nontrivial=len(items))
    ev.cov["seeded_functions"] = fns
    ev.cov["seeds"] = [repr(x) for x in seeds]
    ev.cov["functions_refusing_numpy_integer_seeds"] = sorted(unsupported)
    ev.cov["exhaustive"] = True
    ev.cov["notes"].append("exhaustive over the stated menus; seed values are a menu, not all integers")
    ev.sample({"function": "watts_strogatz_hypergraph", "seed": 42, "between_calls": ["draw-numpy"]})
    ev.assumptions += ["single interpreter process, single thread", "failure modes are structural (unseeded draw, state kept across "
                       "calls, unseeded third-party component): each is provoked by some menu entry whatever the seed value"]
    return viols


def replay(case):
    global _TIER
    name, gi, seed = case["name"], case["grid"], case["seed"]
    G = grids()
    args, kwargs = G[name][gi]
    P = perturbations()
    P["same-function-other-seed"] = lambda: _same_other(name, G[name], seed)
    for p in case["pre"]:
        P[p]()
    if case.get("shared_args"):
        import copy

        import xgi

        a2, k2 = copy.deepcopy(args), copy.deepcopy(kwargs)
        call = lambda: getattr(xgi, name)(*a2, **k2, seed=seed)  # noqa: E731 - the same argument objects every time
    else:
        call = lambda: _call(name, args, kwargs, seed)  # noqa: E731
    with warnings.catch_warnings():
        warnings.simplefilter("ignore")
        r1 = norm(call())
        bad = 0
        for _ in range(3):
            for p in case["seq"]:
                P[p]()
            r2 = norm(call())
            bad += r2 != r1
    return [f"{name}(seed={seed}) differs in {bad} of 3 repeated calls"] if bad else []
