"""C11 What is written to disk reads back as the same network (DESIGN.md 5 C11; E2 x formats x delimiters)."""
import os
import shutil
import warnings

from xmc import env, explore, families as F
from xmc import provenance as PV
from xmc.evidence import Violation
from checks.c10 import decorate, full, inc, _fd

PROP = "C11"
DELIMS = [" ", ",", "\t", ";", "|", "::", "--", "ab", " - "]  # multi-character delimiters are substrings, not character sets
DELIMS_MATRIX = [" ", ",", "\t", ";", "|"]  # numpy.loadtxt accepts single-character delimiters only

_DIR = None


def _p(name):
    return os.path.join(_DIR, f"{os.getpid()}-{name}")


def disk_undirected(H, spec):
    import xgi

    out = []
    bad = lambda mon, msg: out.append((mon, msg))  # noqa: E731
    I0 = inc(H)
    mem = H.edges.members(dtype=dict)
    has_empty = any(len(m) == 0 for m in mem.values())
    ints = all(isinstance(n, int) for n in H.nodes) and all(isinstance(e, int) for e in H.edges)
    strs = all(isinstance(n, str) for n in H.nodes) and all(isinstance(e, str) for e in H.edges)
    node_int = all(isinstance(n, int) for n in H.nodes)
    edge_int = all(isinstance(e, int) for e in H.edges)
    ncast = int if node_int else (str if all(isinstance(n, str) for n in H.nodes) else None)
    ecast = int if edge_int else (str if all(isinstance(e, str) for e in H.edges) else None)
    # HIF
    p = _p("h.hif.json")
    xgi.write_hif(H, p)
    H2 = xgi.read_hif(p)
    a, b = full(H), full(H2)
    if a != b:
        bad("hif", f"write_hif/read_hif: {_fd(a, b)}")
    if strs or ints:
        H2 = xgi.read_hif(p, nodetype=int if ints else str, edgetype=int if ints else str)
        b = full(H2)
        if a != b:
            bad("hif", f"write_hif/read_hif with casts: {_fd(a, b)}")
    # JSON (standard dict)
    if ints or strs:
        p = _p("h.json")
        xgi.write_json(H, p)
        cast = int if ints else None
        H2 = xgi.read_json(p, nodetype=cast, edgetype=cast)
        b = full(H2)
        if a != b:
            bad("json", f"write_json/read_json: {_fd(a, b)}")
    # text formats
    texts = [str(x) for x in list(H.nodes) + list(H.edges)]
    for d in DELIMS:
        if any(d in t for t in texts):
            continue  # the property is about delimiters that cannot occur in a label
        if not has_empty and len(mem):
            p = _p("el.txt")
            xgi.write_edgelist(H, p, delimiter=d)
            H2 = xgi.read_edgelist(p, delimiter=d, nodetype=int if node_int else None)
            if [set(m) for m in H2.edges.members()] != [set(mem[e]) for e in H.edges]:
                bad("edgelist", f"edge list (delimiter {d!r}): read {H2.edges.members()}, wrote {[mem[e] for e in H.edges]}")
        if I0:
            p = _p("bel.txt")
            xgi.write_bipartite_edgelist(H, p, delimiter=d)
            H2 = xgi.read_bipartite_edgelist(p, delimiter=d, nodetype=int if node_int else None, edgetype=int if edge_int else None)
            H2b = xgi.read_bipartite_edgelist(p, delimiter=d, nodetype=ncast, edgetype=ecast)  # both casts explicit
            if ncast and ecast and inc(H2b) != I0:
                bad("bipartite-edgelist", f"bipartite edge list (delimiter {d!r}) read with nodetype={ncast.__name__}, "
                    f"edgetype={ecast.__name__}: {sorted(inc(H2b), key=repr)}, wrote {sorted(I0, key=repr)}")
            if inc(H2) != I0:
                bad("bipartite-edgelist", f"bipartite edge list (delimiter {d!r}): read {sorted(inc(H2), key=repr)}, wrote "
                    f"{sorted(I0, key=repr)}")
            H3 = xgi.read_bipartite_edgelist(p, delimiter=d, nodetype=int if edge_int else None, edgetype=int if node_int else None,
                                             dual=True)
            if inc(H3) != {(e, n) for n, e in I0}:
                bad("bipartite-edgelist", f"bipartite edge list read with dual=True (delimiter {d!r}) is not the dual")
    if len(H.nodes) and len(H.edges):
        pos_n = {n: i for i, n in enumerate(H.nodes)}
        pos_e = {e: j for j, e in enumerate(H.edges)}
        want = {(pos_n[n], pos_e[e]) for n, e in I0}
        for d in DELIMS_MATRIX:
            p = _p("inc.txt")
            xgi.write_incidence_matrix(H, p, delimiter=d)
            try:
                H2 = xgi.read_incidence_matrix(p, delimiter=d)
                got = inc(H2)
            except Exception as e:  # noqa: BLE001
                got = f"raised {type(e).__name__}: {e}"
            if got != want:
                bad("incidence-matrix", f"incidence matrix file {len(H.nodes)}x{len(H.edges)} (delimiter {d!r}): read {got}, "
                    f"wrote {want}")
    return out


def disk_other(X, spec):
    import xgi

    out = []
    bad = lambda mon, msg: out.append((mon, msg))  # noqa: E731
    p = _p("x.hif.json")
    xgi.write_hif(X, p)
    X2 = xgi.read_hif(p)
    a, b = full(X), full(X2)
    if a != b:
        bad("hif", f"write_hif/read_hif ({a['cls']}): {_fd(a, b)}")
    if type(X).__name__ == "SimplicialComplex" and len(X.edges):
        for d in (" ", ",", "::"):
            p = _p("sel.txt")
            xgi.write_edgelist(X, p, delimiter=d)
            S2 = xgi.read_edgelist(p, delimiter=d, nodetype=int if all(isinstance(n, int) for n in X.nodes) else None,
                                   create_using=xgi.SimplicialComplex)
            if {frozenset(m) for m in S2.edges.members()} != {frozenset(m) for m in X.edges.members()}:
                bad("edgelist", f"edge list of a complex (delimiter {d!r}) reads back different simplices")
    return out


def collections(tier):
    """write_hif_collection / read_hif_collection and write_json collections (list and dict), read without casts and with
    every documented cast; each member must equal the member read alone from its own file with the same casts."""
    import xgi

    out = []
    n = 0

    def guarded(label, f):
        nonlocal n
        n += 1
        try:
            f()
        except Exception as e:  # noqa: BLE001
            import traceback

            out.append((label + "-raises", f"{label}: {type(e).__name__}: {e} at {traceback.format_exc().splitlines()[-3].strip()}"))

    nets = [F.build(decorate(F.H([[1, 2], [2, 3]], nodes=[1, 2, 3, 4]), 2)), F.build(F.S([[1, 2, 3]])),
            F.build(F.D([([1], [2, 3])], nodes=[1, 2, 3, 9]))]
    # digit-string labels and IDs: casts change them (int, float), so a cast that is not applied shows
    digit = [F.build(F.H([["1", "2"], ["2", "3"], []], nodes=["1", "2", "3", "7"], ids=["10", "11", "12"],
                         eattr={0: {"w": 1}}, nattr={"7": {"node": "iso"}})),
             F.build(F.D([(["1"], ["2", "3"])], nodes=["1", "2", "3", "9"], ids=["10"])),
             F.build(F.S([["1", "2", "3"]], ids=["10"]))]
    for form in ("list", "dict"):
        def hif(form=form):
            d = os.path.join(_DIR, f"coll-{os.getpid()}-{form}")
            os.makedirs(d, exist_ok=True)
            coll = nets if form == "list" else {"a": nets[0], "b": nets[1], "c": nets[2]}
            xgi.write_hif_collection(coll, d, collection_name="c")
            back = xgi.read_hif_collection(os.path.join(d, "c_collection_information.json"))
            keys = [str(i) for i in range(3)] if form == "list" else ["a", "b", "c"]
            if sorted(map(str, back)) != sorted(keys):
                out.append(("hif-collection", f"collection ({form}) keys {list(back)} != {keys}"))
                return
            for k, X in zip(keys, nets):
                X2 = back.get(k, back.get(int(k)) if k.isdigit() else None)
                if X2 is None or full(X) != full(X2):
                    out.append(("hif-collection", f"collection ({form}) member {k}: {_fd(full(X), full(X2)) if X2 is not None else 'missing'}"))

        guarded(f"hif-collection({form})", hif)

        def hif_casts(form=form):
            d = os.path.join(_DIR, f"collc-{os.getpid()}-{form}")
            os.makedirs(d, exist_ok=True)
            coll = digit if form == "list" else {"a": digit[0], "b": digit[1], "c": digit[2]}
            xgi.write_hif_collection(coll, d, collection_name="c")
            info = os.path.join(d, "c_collection_information.json")
            keys = [str(i) for i in range(3)] if form == "list" else ["a", "b", "c"]
            for nt, et in ((None, None), (int, None), (None, int), (int, int), (float, str), (str, float)):
                back = xgi.read_hif_collection(info, nodetype=nt, edgetype=et)
                for k, X in zip(keys, digit):
                    X2 = back.get(k, back.get(int(k)) if k.isdigit() else None)
                    # the same network cast in memory: the reference for what the casts mean
                    want = full(xgi.from_hif_dict(xgi.to_hif_dict(X), nodetype=nt, edgetype=et))
                    if X2 is None or full(X2) != want:
                        out.append(("hif-collection", f"collection ({form}) member {k} read with nodetype="
                                    f"{getattr(nt, '__name__', None)}, edgetype={getattr(et, '__name__', None)}: "
                                    f"{_fd(want, full(X2)) if X2 is not None else 'missing'}"))
                    if nt is int and any(not isinstance(x, int) for x in (X2.nodes if X2 is not None else [])):
                        out.append(("hif-collection", f"collection ({form}) member {k}: nodetype=int left nodes {list(X2.nodes)}"))
                    if et is int and any(not isinstance(x, int) for x in (X2.edges if X2 is not None else [])):
                        out.append(("hif-collection", f"collection ({form}) member {k}: edgetype=int left edge IDs {list(X2.edges)}"))

        guarded(f"hif-collection-casts({form})", hif_casts)

        def js(form=form):
            # json collections: undirected hypergraphs only
            dj = os.path.join(_DIR, f"jcoll-{os.getpid()}-{form}")
            os.makedirs(dj, exist_ok=True)
            hs = [F.build(decorate(F.H([[1, 2], [2, 3]], nodes=[1, 2, 3, 4]), 2)), F.build(F.H([[1], [1, 2, 3]]))]
            coll = hs if form == "list" else {"a": hs[0], "b": hs[1]}
            xgi.write_json(coll, dj, collection_name="c")
            back = xgi.read_json(os.path.join(dj, "c_collection_information.json"), nodetype=int, edgetype=int)
            keys = ["0", "1"] if form == "list" else ["a", "b"]
            for k, X in zip(keys, hs):
                X2 = back.get(k)
                if X2 is None or full(X) != full(X2):
                    out.append(("json-collection", f"json collection ({form}) member {k} differs"))

        guarded(f"json-collection({form})", js)

        def rewrite(form=form):
            # the same directory and collection name written twice in one process with different content: the second read
            # must return the second content (files are the only memory between a write and a read)
            d = os.path.join(_DIR, f"rew-{os.getpid()}-{form}")
            os.makedirs(d, exist_ok=True)
            gen1 = nets if form == "list" else {"a": nets[0], "b": nets[1], "c": nets[2]}
            gen2 = [nets[2], nets[0], nets[1]] if form == "list" else {"a": nets[1], "b": nets[2], "c": nets[0]}
            info = os.path.join(d, "c_collection_information.json")
            for gen in (gen1, gen2, gen1):
                xgi.write_hif_collection(gen, d, collection_name="c")
                back = xgi.read_hif_collection(info)
                want = list(gen) if form == "list" else list(gen.values())
                keys = [str(i) for i in range(3)] if form == "list" else ["a", "b", "c"]
                for k, X in zip(keys, want):
                    X2 = back.get(k, back.get(int(k)) if k.isdigit() else None)
                    if X2 is None or full(X) != full(X2):
                        out.append(("hif-collection", f"collection ({form}) re-written in place: member {k} read back as "
                                    f"{_fd(full(X), full(X2)) if X2 is not None else 'missing'}"))
            # a single file re-written in place
            p1 = os.path.join(d, "single.hif.json")
            for X in (nets[0], nets[2], nets[1]):
                xgi.write_hif(X, p1)
                if full(xgi.read_hif(p1)) != full(X):
                    out.append(("hif", f"{p1} re-written in place reads back another network"))
            pj = os.path.join(d, "single.json")
            for X in (hs0, hs1):
                xgi.write_json(X, pj)
                if full(xgi.read_json(pj, nodetype=int, edgetype=int)) != full(X):
                    out.append(("json", "a JSON file re-written in place reads back another network"))

        hs0, hs1 = F.build(decorate(F.H([[1, 2], [2, 3]], nodes=[1, 2, 3, 4]), 2)), F.build(F.H([[1], [1, 2, 3]]))
        guarded(f"rewritten-in-place({form})", rewrite)
    return n, out


def _work(item):
    global _DIR
    kind, spec = item
    _DIR = PV.tmpdir()
    with warnings.catch_warnings():
        warnings.simplefilter("ignore")
        try:
            X = F.build(spec)
            fn = disk_undirected if spec["cls"] == "H" else disk_other
            res = fn(X, spec)
            F.detour(X)
            F.morph(X)
            F.rename(X)  # one node replaced by a node with a new label: same counts, another node set
            F.grow(X)
            uniform = lambda ids: len({type(i) for i in ids}) <= 1  # noqa: E731 - one cast per column must suffice
            if uniform(list(X.nodes)) and uniform(list(X.edges)):
                res = list(res) + [(m, "[same object re-written after in-place edits] " + msg) for m, msg in fn(X, spec)]
        except RecursionError:
            raise
        except Exception as e:  # noqa: BLE001
            import traceback

            res = [("io-raises", f"{type(e).__name__}: {e} at {traceback.format_exc().splitlines()[-3].strip()}")]
    return {"viols": [(m, msg, spec) for m, msg in res][:4]}


def family(tier):
    q = tier == "quick"
    items = []
    base = list(F.undirected([1, 2, 3], 3)) + list(F.undirected([1, 2, 3, 4], 2, min_edges=1))
    if not q:
        base = list(F.undirected([1, 2, 3, 4], 3)) + list(F.undirected([1, 2, 3, 4, 5], 2, min_edges=2))
    step = 2 if q else 1
    for s in base[::step]:
        items.append(("H", decorate(s, 0)))
        items.append(("H", decorate(s, 2)))
    for s in base[::6]:
        items.append(("H", F.with_empty_edge(decorate(s, 2))))
        items.append(("H", decorate(F.relabel(s, node_map={n: "v%d" % n for n in s["nodes"]}), 1)))
    # node labels and edge IDs whose text coincides, to be read back with two different casts
    items += [("H", F.H([[1, 2], [2, 3], [1, 3]], ids=["1", "2", "7"])), ("H", F.H([["1", "2"], ["2", "x"]], ids=[1, 2])),
              ("H", F.H([[0, 1, 2], [2, 3]], ids=["0", "3"], nodes=[0, 1, 2, 3]))]
    # string labels that contain another delimiter's character (blank, comma, tab, ...): every delimiter that does not
    # occur in a label must still separate exactly the labels
    for k, ch in enumerate([" ", ",", "\t", ";", "|", ":", "-", "."]):
        for s in base[k::(16 if q else 8)]:
            nm = {n: f"a{ch}b{n}" for n in s["nodes"]}
            m = len(s["edges"])
            items.append(("H", F.relabel(s, node_map=nm, edge_ids=[f"e{ch}{ch}{i}" for i in range(m)])))
    items += [("H", w) for w in F.wide()]  # more than ten nodes and edges
    # labels that begin or end with a character of a multi-character delimiter without containing the delimiter
    # (a label that *ends* with the delimiter's first character is left out: "y-" + "--" is ambiguous in any such format)
    items += [("H", F.H([[-1, 2], [2, -3], [-1]])), ("H", F.H([["ba", "b"], ["a", "ba"]], ids=["ea", "be"])),
              ("H", F.H([["-x", "y"], ["y", "-z"]]))]
    # single-row / single-column matrices explicitly
    items += [("H", F.H([[1]])), ("H", F.H([[1], [1]])), ("H", F.H([[1, 2, 3]])), ("H", F.H([[1], [1], [1]])),
              ("H", F.H([[1, 2]], nodes=[1, 2, 3]))]
    for s in list(F.directed([1, 2, 3], 2))[::(3 if q else 1)]:
        items.append(("D", s))
        if len(s["edges"]) == 2:
            items.append(("D", decorate(s, 1)))
    for s in F.complexes([1, 2, 3, 4]):
        items.append(("S", decorate(s, 2) if len(s["edges"]) else s))
    return items


def run(tier, ev):
    global _DIR
    _DIR = PV.tmpdir()
    items = family(tier)
    ev.cov["rule"] = ("enumerated networks of the three classes with JSON-representable labels / attributes written to a "
                      "per-run scratch directory and read back: HIF (3 classes, +casts), JSON, edge list, bipartite edge list "
                      "(+dual), incidence matrix, x 6 delimiters (5 single-character ones for the numpy-based matrix "
                      "format); collections as list and dict")
    res = explore.parallel_map(_work, items, env.nproc())
    viols = []
    for r in res:
        for mon, msg, spec in r["viols"]:
            viols.append(Violation(PROP, mon, msg, {"check": "c11", "kind": "disk", "spec": spec}, {"format": mon}))
    with warnings.catch_warnings():
        warnings.simplefilter("ignore")
        nc, cv = collections(tier)
    for mon, msg in cv:
        viols.append(Violation(PROP, mon, msg, {"check": "c11", "kind": "collection"}, {"format": mon}))
    nH = sum(1 for k, _ in items if k == "H")
    files = nH * (3 + 3 * len(DELIMS) + len(DELIMS_MATRIX)) + (len(items) - nH) * 2 + nc
    ev.add(states=len(items), transitions=files, evaluations=files, distinct_nontrivial=len(items))
    ev.cov["networks"] = {k: sum(1 for kk, _ in items if kk == k) for k in "HDS"}
    ev.cov["delimiters"] = DELIMS
    ev.cov["notes"].append("multi-character delimiters are outside the incidence-matrix text format (numpy.loadtxt requires a "
                           "single character)")
    ev.sample({"spec": items[10][1], "formats": ["hif", "json", "edgelist", "bipartite edgelist", "incidence matrix"]})
    ev.assumptions += ["labels are ints or strings; attribute values JSON-representable", "text formats judged on networks "
                       "without empty edges; incidence-matrix files judged positionally"]
    return viols


def replay(case):
    global _DIR
    _DIR = PV.tmpdir()
    if case["kind"] == "disk":
        r = _work(("x", case["spec"]))
        return [f"{m}: {msg}" for m, msg, _ in r["viols"]]
    with warnings.catch_warnings():
        warnings.simplefilter("ignore")
        _, cv = collections("quick")
    return [f"{m}: {msg}" for m, msg in cv]
