"""C15 Simpliciality measures match their combinatorial definitions (DESIGN.md 5 C15; E2)."""
import itertools
import math
import warnings

from xmc import env, explore, families as F
from xmc.evidence import Violation

PROP = "C15"


def brute(edges, min_size, exclude):
    E = set(edges)
    maximal = [e for e in E if not any(e < f for f in E)]
    Mp = [e for e in maximal if len(e) >= min_size + exclude]
    missing = set()
    for e in Mp:
        for k in range(min_size, len(e)):
            for c in itertools.combinations(sorted(e, key=repr), k):
                if frozenset(c) not in E:
                    missing.add(frozenset(c))
    elig = [e for e in E if len(e) >= min_size + exclude]
    simp = [e for e in elig if all(frozenset(c) in E for k in range(min_size, len(e) + 1)
                                   for c in itertools.combinations(sorted(e, key=repr), k))]
    fes_terms = []
    fes_raw = []
    for e in Mp:
        poss = sum(math.comb(len(e), k) for k in range(min_size, len(e)))
        miss = sum(1 for k in range(min_size, len(e)) for c in itertools.combinations(sorted(e, key=repr), k)
                   if frozenset(c) not in E)
        fes_raw.append(miss)
        fes_terms.append(miss / poss if poss else miss)
    return {"sed": len(missing) if Mp else None, "n_elig_max": len(Mp),
            "sf": (len(simp) / len(elig)) if elig else None,
            "mfed": (sum(fes_terms) / len(Mp)) if Mp else 0.0,
            "mfed_raw": (sum(fes_raw) / len(Mp)) if Mp else 0.0,
            "s": len([e for e in E if len(e) >= min_size])}


def _nan(x):
    return isinstance(x, float) and math.isnan(x)


def _close(a, b):
    return abs(a - b) <= 1e-9 * max(1.0, abs(a), abs(b))


def check(H, spec):
    import xgi

    out = []
    n = 0
    bad = lambda mon, msg: out.append((mon, msg)) if len(out) < 5 else None  # noqa: E731
    edges = [frozenset(m) for m in H.edges.members()]
    for min_size, exclude in itertools.product((1, 2, 3), (True, False)):
        b = brute(edges, min_size, exclude)
        kw = dict(min_size=min_size, exclude_min_size=exclude)
        n += 1
        sed = xgi.simplicial_edit_distance(H, normalize=False, **kw)
        if b["sed"] is None:
            if not _nan(sed):
                bad("edit-distance", f"simplicial_edit_distance(normalize=False, {kw}) = {sed}, expected NaN (no eligible maximal edge)")
        elif _nan(sed) or sed != b["sed"]:
            bad("edit-distance", f"simplicial_edit_distance(normalize=False, {kw}) = {sed}, brute force counts {b['sed']} "
                f"missing node sets; edges {[sorted(e, key=repr) for e in edges]}")
        sedn = xgi.simplicial_edit_distance(H, normalize=True, **kw)
        es = xgi.edit_simpliciality(H, **kw)
        if not _nan(sedn):
            if not (-1e-12 <= sedn <= 1 + 1e-12):
                bad("range", f"simplicial_edit_distance(normalize=True, {kw}) = {sedn} outside [0, 1]")
            if b["sed"] is not None:
                den = b["s"] - b["n_elig_max"] + b["sed"]
                if den > 0 and not _close(sedn, b["sed"] / den):
                    bad("edit-distance", f"simplicial_edit_distance(normalize=True, {kw}) = {sedn}, expected {b['sed']}/{den}")
            if _nan(es) or not _close(es, 1 - sedn):
                bad("edit-distance", f"edit_simpliciality({kw}) = {es} != 1 - {sedn}")
        elif not _nan(es):
            bad("edit-distance", f"edit_simpliciality({kw}) = {es} but the distance is NaN")
        n += 1
        sf = xgi.simplicial_fraction(H, **kw)
        if b["sf"] is None:
            if not _nan(sf):
                bad("fraction", f"simplicial_fraction({kw}) = {sf}, expected NaN (no eligible edge)")
        elif _nan(sf) or not _close(sf, b["sf"]):
            bad("fraction", f"simplicial_fraction({kw}) = {sf}, brute force {b['sf']}; edges {[sorted(e, key=repr) for e in edges]}")
        if not _nan(sf) and not (-1e-12 <= sf <= 1 + 1e-12):
            bad("range", f"simplicial_fraction({kw}) = {sf} outside [0, 1]")
        n += 1
        mf = xgi.mean_face_edit_distance(H, normalize=True, **kw)
        mfr = xgi.mean_face_edit_distance(H, normalize=False, **kw)
        fes = xgi.face_edit_simpliciality(H, **kw)
        if _nan(mf) or not _close(mf, b["mfed"]):
            bad("face-edit", f"mean_face_edit_distance({kw}) = {mf}, brute force {b['mfed']}; edges {[sorted(e, key=repr) for e in edges]}")
        if _nan(mfr) or not _close(mfr, b["mfed_raw"]):
            bad("face-edit", f"mean_face_edit_distance(normalize=False, {kw}) = {mfr}, brute force {b['mfed_raw']}")
        if not _nan(fes) and (not _close(fes, 1 - mf) or not (-1e-12 <= fes <= 1 + 1e-12)):
            bad("face-edit", f"face_edit_simpliciality({kw}) = {fes}; 1 - distance = {1 - mf}")
    return n, out


def check_closed(H):
    """Scores equal 1 (or NaN) on a downward-closed hypergraph."""
    import xgi

    out = []
    n = 0
    for min_size, exclude in itertools.product((1, 2, 3), (True, False)):
        kw = dict(min_size=min_size, exclude_min_size=exclude)
        for fn in ("edit_simpliciality", "face_edit_simpliciality", "simplicial_fraction"):
            n += 1
            v = getattr(xgi, fn)(H, **kw)
            if not _nan(v) and not _close(v, 1.0):
                if len(out) < 4:
                    out.append(("closed", f"{fn}({kw}) = {v} on a downward-closed hypergraph"))
    return n, out


def check_range(H):
    """Scores in [0, 1] or NaN (any hypergraph, repeated edges included)."""
    import xgi

    out = []
    n = 0
    for min_size, exclude in itertools.product((1, 2, 3), (True, False)):
        kw = dict(min_size=min_size, exclude_min_size=exclude)
        for fn in ("edit_simpliciality", "face_edit_simpliciality", "simplicial_fraction"):
            n += 1
            v = getattr(xgi, fn)(H, **kw)
            if not _nan(v) and not (-1e-12 <= v <= 1 + 1e-12):
                if len(out) < 4:
                    out.append(("range", f"{fn}({kw}) = {v} outside [0, 1]"))
    return n, out


def _work(spec):
    with warnings.catch_warnings():
        warnings.simplefilter("ignore")
        try:
            H = F.build(spec)
            n, v = check(H, spec)
            F.detour(H)
            F.morph(H)  # a different network with the same node and edge counts
            ms = [frozenset(m) for m in H.edges.members()]
            n2, v2 = check(H, spec) if len(ms) == len(set(ms)) else (0, [])  # the measures are defined without repeated edges
            F.grow(H)  # one more edge with a fresh ID
            ms = [frozenset(m) for m in H.edges.members()]
            n3, v3 = check(H, spec) if len(ms) == len(set(ms)) else (0, [])
            n += n2 + n3
            v = list(v) + [(m, "[same object re-evaluated after in-place edits] " + msg) for m, msg in list(v2) + list(v3)]
            # the closure of this hypergraph (all non-empty subsets of every edge) as a downward-closed input
            cl = set()
            for _, m in spec["edges"]:
                for k in range(1, len(m) + 1):
                    cl |= {frozenset(c) for c in itertools.combinations(m, k)}
            cs = F.H([sorted(c, key=repr) for c in sorted(cl, key=lambda c: (len(c), sorted(map(repr, c))))], nodes=spec["nodes"])
            n2, v2 = check_closed(F.build(cs))
            vi = [(m, msg, spec) for m, msg in v] + [(m, msg, cs) for m, msg in v2]
            n += n2
            # downward-closed inputs *with* repeated edges (the "equal 1" and range clauses are not limited to hypergraphs
            # without repeats): each edge of the closure repeated in turn, and every edge repeated
            cedges = [m for _, m in cs["edges"]]
            reps = [cedges + [m] for m in cedges] + [cedges + cedges]
            for ce in reps:
                cr = F.H(ce, nodes=spec["nodes"])
                n2, v2 = check_closed(F.build(cr))
                n += n2
                vi += [(m, msg, cr) for m, msg in v2]
            # the original edges with one of them repeated: range / NaN only
            oedges = [m for _, m in spec["edges"]]
            for m_ in oedges:
                orr = F.H(oedges + [m_], nodes=spec["nodes"])
                n2, v2 = check_range(F.build(orr))
                n += n2
                vi += [(m, msg, orr) for m, msg in v2]
        except RecursionError:
            raise
        except Exception as e:  # noqa: BLE001
            import traceback

            n, vi = 1, [("raises", f"{type(e).__name__}: {e} at {traceback.format_exc().splitlines()[-3].strip()}", spec)]
    return {"n": n, "viols": vi}


def family(tier):
    q = tier == "quick"
    base = list(F.undirected([1, 2, 3, 4], 3 if q else 5, isolated=False, multi=False))
    if not q:
        base += [s for s in F.undirected([1, 2, 3, 4, 5], 3, isolated=False, multi=False, min_edges=2) if 5 in s["nodes"]]
    else:
        base += [s for s in F.undirected([1, 2, 3, 4, 5], 2, isolated=False, multi=False, min_edges=2) if 5 in s["nodes"]]
    items = list(F.wide())  # more than ten nodes and edges
    # simplicial complexes as inputs (the measures accept them; a complex stores no singleton simplices, so with
    # min_size = 1 it is *not* downward closed in the sense of the measures)
    items += [c for c in F.complexes([1, 2, 3, 4], isolated=False) if c["edges"]]
    for k, s in enumerate(base):
        items.append(s)
        if k % 4 == 0:
            items.append(F.relabel(s, node_map={n: "v%d" % (9 - n) for n in s["nodes"]}, reverse_members=True))
        # edge IDs need only be hashable: IDs that are not mutually orderable (frozensets are partially ordered by
        # inclusion, ints and strings not at all), decreasing and float IDs
        m = len(s["edges"])
        if k % 4 == 1:
            items.append(F.relabel(s, edge_ids=[frozenset({"id", i}) for i in range(m)]))
        elif k % 4 == 2:
            items.append(F.relabel(s, edge_ids=["a", 7, (1, 2), 2.5, "b", 11][:m] if m <= 6 else list(range(m))))
        elif k % 4 == 3:
            items.append(F.relabel(s, edge_ids=[10.5 - i for i in range(m)]))
    return items


def run(tier, ev):
    items = family(tier)
    ev.cov["rule"] = ("all hypergraphs without repeated edges over 4 labels with <=3 (thorough <=4) edges and over 5 labels with "
                      "2 (thorough <=3) edges, a quarter also with string labels; x min_size {1,2,3} x exclude_min_size x "
                      "normalize; each measure compared with exhaustive enumeration over subsets of maximal edges; the closure "
                      "of every enumerated hypergraph is used as a downward-closed input (scores 1 or NaN), alone and with each of its "
                      "edges / all of its edges repeated; every enumerated hypergraph with one edge repeated for the range clause")
    res = explore.parallel_map(_work, items, env.nproc())
    viols = []
    n = 0
    for r in res:
        n += r["n"]
        for mon, msg, spec in r["viols"][:3]:
            direct = mon == "closed" or (mon == "range" and "outside [0, 1]" in msg and msg.split("(")[0] in
                                         ("edit_simpliciality", "face_edit_simpliciality", "simplicial_fraction")
                                         and not msg.startswith("["))
            viols.append(Violation(PROP, mon, msg, {"check": "c15", "kind": "simpliciality", "spec": spec, "monitor": mon,
                                                    "direct": direct}, {"what": mon}))
    ev.add(states=2 * len(items), transitions=n, evaluations=n, distinct_nontrivial=len(items))
    ev.sample({"spec": items[200], "settings": "min_size x exclude_min_size x normalize"})
    ev.assumptions += ["labels orderable within one hypergraph (ints or strings, not mixed)", "float tolerance 1e-9"]
    return viols


def replay(case):
    # the whole staged evaluation (fresh object, then detour / morph / grow on the same object) is repeated
    if case.get("monitor") in ("closed", "range") and case.get("direct"):
        with warnings.catch_warnings():
            warnings.simplefilter("ignore")
            _, v = (check_closed if case["monitor"] == "closed" else check_range)(F.build(case["spec"]))
        return [f"{m}: {msg}" for m, msg in v]
    r = _work(case["spec"])
    return [f"{m}: {msg}" for m, msg, sp in r["viols"] if m == case.get("monitor")]
