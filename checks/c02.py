"""C02 Directed incidence integrity (tail/head vs out/in) under every history (DESIGN.md 5, E1)."""
from xmc import alphabets as A
from xmc import explore, histcheck, oracles

PROP = "C02"

SEEDS = [
    "xgi.DiHypergraph()",
    "xgi.DiHypergraph({2: ([1], [2]), 1: ([2, 3], [1]), 0: ([3], [])})",
    "xgi.DiHypergraph([([1, 2], [2, 3]), ([1, 2], [2, 3]), ([3], [3])])",
    "xgi.DiHypergraph([(['a'], ['b']), (['b', 'c'], ['d'])])",
]


def specs(tier):
    static = A.dihypergraph_static() + A.dihypergraph_deviant()
    gens = [A.gen_dimember_removals]
    exotic = explore.Spec("dihypergraph-histories-exotic-labels",
                          ["xgi.DiHypergraph()", "xgi.DiHypergraph({ET: ([TA], [SB]), 0: ([SB, FC], [TA])})"],
                          A.dihypergraph_exotic(), gens, invariants=[oracles.directed_incidence], depth=3,
                          dev_bound=1 if tier == "quick" else 2, namespace=histcheck.base_namespace)
    if tier == "quick":
        return [explore.Spec("dihypergraph-histories", SEEDS, static, gens, invariants=[oracles.directed_incidence],
                             depth=3, dev_bound=1, namespace=histcheck.base_namespace), exotic]
    return [exotic,
        explore.Spec("dihypergraph-histories", SEEDS, static, gens, invariants=[oracles.directed_incidence],
                     depth=3, dev_bound=2, namespace=histcheck.base_namespace),
        explore.Spec("dihypergraph-histories-deep", SEEDS[:2], A.dihypergraph_trim(), gens,
                     invariants=[oracles.directed_incidence], depth=5, dev_bound=2, namespace=histcheck.base_namespace),
    ]


def run(tier, ev):
    ev.cov["rule"] = ("BFS over histories of DiHypergraph mutators (real calls); distinct_nontrivial = distinct "
                      "canonical states on which the directed incidence invariant was evaluated")
    ev.cov["bounds"] = {"node_labels": [1, 2, 3], "edge_ids": [0, 1, 2, 5, "e", "auto"], "missing_id": 9}
    ev.assumptions += ["small-scope: labels, depth and deviation bounds as stated"]
    v = histcheck.run_specs(PROP, "c02", specs(tier), ev)
    v = list(v) + histcheck.nan_histories(PROP, "c02", "DiHypergraph", [oracles.directed_incidence], ev, depth=2 if tier == "quick" else 3)
    ev.sample({"history": ["xgi.DiHypergraph()", "H.add_edge(([1, 2], [3]))", "H.remove_node(1, strong=True)"]})
    return v


def replay(case):
    if case.get("kind") == "nan-history":
        r = histcheck.run_nan_history(case["cls"], case["ops"], [oracles.directed_incidence])
        return [f"{r[0]}: {r[1]}"] if r else []
    for s in specs("thorough"):
        if s.name == case["spec"]:
            return histcheck.replay_history(s, case)
    return []
