"""C19 Derived networks satisfy their set-theoretic definitions (DESIGN.md 5 C19; E2 x flags / selections)."""
import itertools
import warnings

import networkx as nx

from xmc import canon as C
from xmc import env, explore, families as F
from xmc.evidence import Violation

PROP = "C19"


def model(H):
    s = C.snapshot(H)
    return {"nodes": list(s["nodes"]), "edges": list(s["edges"]), "mem": dict(s["members"]), "nattr": s["nattr"],
            "eattr": s["eattr"], "net": s["net"], "cls": s["cls"]}


def components(nodes, mems):
    G = nx.Graph()
    G.add_nodes_from(("n", x) for x in nodes)
    for e, m in mems.items():
        for x in m:
            G.add_edge(("n", x), ("e", e))
    return [frozenset(x for k, x in c if k == "n") for c in nx.connected_components(G) if any(k == "n" for k, _ in c)]


def unrelabel(R, label="label"):
    """Map a relabelled result back through the recorded old labels.  Returns (model with old labels, problems)."""
    probs = []
    if R["nodes"] != list(range(len(R["nodes"]))) or R["edges"] != list(range(len(R["edges"]))):
        probs.append(f"labels are not 0..n-1 / 0..m-1: nodes {R['nodes']} edges {R['edges']}")
    try:
        nm = {n: R["nattr"][n][label] for n in R["nodes"]}
        em = {e: R["eattr"][e][label] for e in R["edges"]}
    except KeyError:
        return None, probs + [f"old labels not recorded under {label!r}"]
    if len(set(nm.values())) != len(nm) or len(set(em.values())) != len(em):
        probs.append("relabelling is not injective")
    directed = R["cls"] == "DiHypergraph"
    f = (lambda m: (frozenset(nm[x] for x in m[0]), frozenset(nm[x] for x in m[1]))) if directed else (lambda m: frozenset(nm[x] for x in m))
    out = {"nodes": [nm[n] for n in R["nodes"]], "edges": [em[e] for e in R["edges"]],
           "mem": {em[e]: f(m) for e, m in R["mem"].items()},
           "nattr": {nm[n]: {k: v for k, v in a.items() if k != label} for n, a in R["nattr"].items()},
           "eattr": {em[e]: {k: v for k, v in a.items() if k != label} for e, a in R["eattr"].items()},
           "net": R["net"], "cls": R["cls"]}
    return out, probs


def expected_cleanup(M, isolates, singletons, multiedges, connected):
    """The documented pipeline on the model M.  Returns (list of admissible results as (nodes, classes), or None if the
    input is outside the domain).  Edges are described per class of equal member sets so that any duplicate
    representative is accepted."""
    nodes = list(M["nodes"])
    edges = list(M["edges"])
    mem = dict(M["mem"])
    groups = [[e] for e in edges]
    if not multiedges:
        by = {}
        for e in edges:
            by.setdefault(mem[e], []).append(e)
        groups = list(by.values())
    if not singletons:
        groups = [g for g in groups if len(mem[g[0]]) != 1]
    if not isolates:
        used = set().union(*[mem[g[0]] for g in groups]) if groups else set()
        nodes = [n for n in nodes if n in used]
    results = []
    if connected:
        if not nodes:
            return None
        comps = components(nodes, {g[0]: mem[g[0]] for g in groups})
        best = max(len(c) for c in comps)
        for c in comps:
            if len(c) == best:
                results.append(([n for n in nodes if n in c], [g for g in groups if mem[g[0]] <= c]))
    else:
        results.append((nodes, groups))
    return results


def _strip(M, label="label"):
    """the documented relabelling overwrites a pre-existing attribute of the same name: compare without it"""
    M2 = dict(M)
    M2["nattr"] = {k: {a: v for a, v in at.items() if a != label} for k, at in M["nattr"].items()}
    M2["eattr"] = {k: {a: v for a, v in at.items() if a != label} for k, at in M["eattr"].items()}
    return M2


def matches(R, nodes, groups, M):
    """R (model with original labels) equals the admissible result (nodes, groups): same node set and attributes; one
    edge per group with an ID and attributes taken from that group."""
    if set(R["nodes"]) != set(nodes) or len(R["nodes"]) != len(nodes):
        return f"nodes {R['nodes']}, expected {nodes}"
    if {n: R["nattr"][n] for n in R["nodes"]} != {n: M["nattr"][n] for n in nodes}:
        return "node attributes changed"
    if len(R["edges"]) != len(groups):
        return f"{len(R['edges'])} edges {R['edges']}, expected one per class {groups}"
    left = [list(g) for g in groups]
    for e in R["edges"]:
        hit = None
        for g in left:
            if e in g and R["mem"][e] == M["mem"][e]:
                hit = g
                break
        if hit is None:
            return f"edge {e!r} = {set(R['mem'][e])} is not one of the expected edges {groups}"
        left.remove(hit)
        if len(hit) == 1 and R["eattr"][e] != M["eattr"][e]:
            return f"attributes of edge {e!r} changed"
    if R["net"] != M["net"]:
        return "network attributes changed"
    return None


def check_cleanup_h(H, spec, out, stats):
    M = model(H)
    key0 = C.state_key(H)
    for flags in itertools.product((False, True), repeat=5):
        iso, sing, multi, conn, rel = flags
        kw = dict(isolates=iso, singletons=sing, multiedges=multi, connected=conn, relabel=rel)
        exp = expected_cleanup(M, iso, sing, multi, conn)
        if exp is None:
            continue
        for in_place in (False, True):
            stats["n"] += 1
            G = F.build(spec) if in_place else H
            try:
                R = G.cleanup(in_place=in_place, **kw)
            except Exception as e:  # noqa: BLE001
                out.append(("cleanup", f"cleanup({kw}, in_place={in_place}) raised {type(e).__name__}: {e}"))
                continue
            if in_place and R is not G:
                out.append(("cleanup", "cleanup(in_place=True) did not return the network itself"))
            if not in_place and C.state_key(H) != key0:
                out.append(("cleanup", f"cleanup({kw}, in_place=False) modified its input"))
                return
            RM = model(R)
            probs = []
            if rel:
                RM, probs = unrelabel(RM)
                if RM is None:
                    out.append(("cleanup", f"cleanup({kw}): " + "; ".join(probs)))
                    continue
            Mc = _strip(M) if rel else M
            why = [matches(RM, n, g, Mc) for n, g in exp]
            if all(why) or probs:
                out.append(("cleanup", f"cleanup({kw}, in_place={in_place}) on nodes {M['nodes']} edges "
                            f"{ {e: set(m) for e, m in M['mem'].items()} }: {'; '.join(probs) or why[0]}"))
            # the promised guarantees, directly on the result
            g = guarantees(R, iso, sing, multi, conn, rel)
            if g:
                out.append(("cleanup-guarantee", f"cleanup({kw}, in_place={in_place}): {g}"))


def guarantees(R, iso, sing, multi, conn, rel):
    import xgi

    mem = R.edges.members(dtype=dict)
    if not iso and any(len(v) == 0 for v in R.nodes.memberships().values()):
        return "isolated node in the result"
    if not sing and any(len(m) == 1 for m in mem.values()):
        return "singleton edge in the result"
    if not multi and len({frozenset(m) for m in mem.values()}) != len(mem):
        return "repeated edge in the result"
    if conn and R.num_nodes and not xgi.is_connected(R):
        return "result is not connected"
    if rel and (list(R.nodes) != list(range(R.num_nodes)) or list(R.edges) != list(range(R.num_edges))):
        return "labels are not 0..n-1 / 0..m-1"
    return None


def check_relabel(X, spec, out, stats):
    import xgi

    M = model(X)
    for la in ("label", "old"):
        stats["n"] += 1
        R = xgi.convert_labels_to_integers(X, label_attribute=la)
        RM, probs = unrelabel(model(R), la)
        if RM is None or probs:
            out.append(("relabel", f"convert_labels_to_integers(label_attribute={la!r}): {'; '.join(probs)}"))
            continue
        strip = lambda d: {k: {a: v for a, v in at.items() if a != la} for k, at in d.items()}  # noqa: E731
        if RM["nodes"] != M["nodes"] or RM["edges"] != M["edges"] or RM["mem"] != M["mem"] or RM["nattr"] != strip(M["nattr"]) \
                or RM["eattr"] != strip(M["eattr"]) or RM["net"] != M["net"] or type(R) is not type(X):
            out.append(("relabel", f"convert_labels_to_integers(label_attribute={la!r}) is not an isomorphism in insertion order "
                        f"that preserves attributes: nodes {RM['nodes']} vs {M['nodes']}, members {RM['mem']} vs {M['mem']}"))
        stats["n"] += 1
        Y = F.build(spec)
        r = xgi.convert_labels_to_integers(Y, label_attribute=la, in_place=True)
        if model(Y) != model(R) or r is not None and r is not Y:
            out.append(("relabel", f"convert_labels_to_integers(in_place=True, label_attribute={la!r}) differs from in_place=False"))


def check_sub_dual_etc(H, spec, out, stats, allow_inplace=True):
    import xgi

    M = model(H)
    nodes, edges, mem = M["nodes"], M["edges"], M["mem"]
    # subhypergraph x every node subset x every edge subset
    def subsets(ids):
        if len(ids) <= 6:
            return [list(c) for k in range(0, len(ids) + 1) for c in itertools.combinations(ids, k)]
        # wide networks: structured selections (empty, all, each complement of one, halves, alternating, the two-digit
        # positions, a few pairs across the one-digit / two-digit boundary)
        out = [[], list(ids), ids[: len(ids) // 2], ids[len(ids) // 2:], ids[::2], ids[1::2], ids[10:], ids[:10], ids[::-1][:5]]
        out += [[x for x in ids if x != y] for y in (ids[0], ids[2], ids[10], ids[-1])]
        out += [[ids[2], ids[10]], [ids[10], ids[11], ids[3]], [ids[1], ids[2], ids[10], ids[11]]]
        return out

    nsubs = [None] + subsets(nodes) + [[nodes[0], "zz"] if nodes else ["zz"]]
    esubs = [None] + subsets(edges)
    for ns in nsubs:
        for es in esubs:
            for keep in (True, False):
                stats["n"] += 1
                S = xgi.subhypergraph(H, nodes=ns, edges=es, keep_isolates=keep)
                wn = [n for n in nodes if ns is None or n in ns]
                we = [e for e in edges if (es is None or e in es) and mem[e] <= set(wn)]
                if not keep:
                    used = set().union(*[mem[e] for e in we]) if we else set()
                    wn = [n for n in wn if n in used]
                SM = model(S)
                if set(SM["nodes"]) != set(wn) or set(SM["edges"]) != set(we) or any(SM["mem"][e] != mem[e] for e in we if e in SM["mem"]) \
                        or any(SM["eattr"][e] != M["eattr"][e] for e in we if e in SM["eattr"]) \
                        or any(SM["nattr"][n] != M["nattr"][n] for n in wn if n in SM["nattr"]) or SM["net"] != M["net"]:
                    out.append(("subhypergraph", f"subhypergraph(nodes={ns}, edges={es}, keep_isolates={keep}): nodes "
                                f"{SM['nodes']} edges {SM['edges']}; expected nodes {wn} edges {we}"))
                    return
                if not S.is_frozen:
                    out.append(("subhypergraph", "subhypergraph result is not frozen"))
    # dual
    stats["n"] += 1
    Dl = H.dual()
    DM = model(Dl)
    ms = {n: frozenset(e for e in edges if n in mem[e]) for n in nodes}
    if set(DM["nodes"]) != set(edges) or set(DM["edges"]) != set(nodes) or DM["mem"] != ms or \
            DM["nattr"] != M["eattr"] or DM["eattr"] != M["nattr"] or DM["net"] != M["net"]:
        out.append(("dual", f"dual(): nodes {DM['nodes']} edges {DM['edges']} members {DM['mem']}; expected nodes {edges} and one "
                    f"edge per node with its memberships {ms}"))
    if all(len(v) for v in ms.values()) and all(len(m) for m in mem.values()):
        DD = model(Dl.dual())
        if set(DD["nodes"]) != set(nodes) or set(DD["edges"]) != set(edges) or DD["mem"] != mem or DD["nattr"] != M["nattr"] \
                or DD["eattr"] != M["eattr"]:
            out.append(("dual", "dual().dual() differs from the network (no isolated nodes, no empty edges)"))
    # complement
    if edges and nodes:
        stats["n"] += 1
        Cc = xgi.complement(H)
        kmax = max(len(m) for m in mem.values())
        present = set(mem.values())
        want = [frozenset(c) for k in range(1, kmax + 1) for c in itertools.combinations(nodes, k) if frozenset(c) not in present]
        got = [frozenset(m) for m in Cc.edges.members()]
        if sorted(map(sorted_repr, got)) != sorted(map(sorted_repr, want)) or list(Cc.nodes) != nodes:
            out.append(("complement", f"complement: {len(got)} edges {sorted(map(sorted_repr, got))}; expected exactly the absent "
                        f"node sets up to size {kmax}: {sorted(map(sorted_repr, want))}"))
    # cut_to_order
    if edges:
        mo = max(len(m) for m in mem.values()) - 1
        for k in range(0, mo + 1):
            stats["n"] += 1
            try:
                Ck = xgi.cut_to_order(H, k)
            except Exception as e:  # noqa: BLE001
                out.append(("cut-to-order", f"cut_to_order(order={k}) raised {type(e).__name__}: {e}"))
                continue
            CM = model(Ck)
            we = [e for e in edges if len(mem[e]) - 1 <= k]
            if CM["nodes"] != nodes or CM["edges"] != we or any(CM["mem"][e] != mem[e] for e in we) or \
                    any(CM["eattr"][e] != M["eattr"][e] for e in we) or CM["nattr"] != M["nattr"]:
                out.append(("cut-to-order", f"cut_to_order(order={k}): edges {CM['edges']}, expected {we}"))
    # largest_connected_hypergraph
    if nodes:
        comps = components(nodes, mem)
        best = max(len(c) for c in comps)
        for in_place in ((False, True) if allow_inplace else (False,)):
            stats["n"] += 1
            G = F.build(spec) if in_place else H
            R = xgi.largest_connected_hypergraph(G, in_place=in_place)
            R = G if in_place else R
            RM = model(R)
            c = frozenset(RM["nodes"])
            we = [e for e in edges if mem[e] <= c]
            if c not in comps or len(c) != best or RM["edges"] != we or any(RM["mem"][e] != mem[e] for e in we) or \
                    any(RM["nattr"][n] != M["nattr"][n] for n in RM["nodes"]) or any(RM["eattr"][e] != M["eattr"][e] for e in we):
                out.append(("largest-component", f"largest_connected_hypergraph(in_place={in_place}): nodes {RM['nodes']} edges "
                            f"{RM['edges']}; components {list(map(set, comps))}"))


def sorted_repr(s):
    return sorted(map(repr, s))


def check_lshift(specs_pair, out, stats):
    a, b = specs_pair
    H1, H2 = F.build(a), F.build(b)
    M1, M2 = model(H1), model(H2)
    stats["n"] += 1
    R = model(H1 << H2)
    wn = M1["nodes"] + [n for n in M2["nodes"] if n not in M1["nodes"]]
    wattr = {n: dict(M1["nattr"].get(n, {})) for n in wn}
    for n in M2["nodes"]:
        wattr[n].update(M2["nattr"][n])
    wedges = [(M1["mem"][e], M1["eattr"][e]) for e in M1["edges"]] + [(M2["mem"][e], M2["eattr"][e]) for e in M2["edges"]]
    gedges = [(R["mem"][e], R["eattr"][e]) for e in R["edges"]]
    wnet = dict(M1["net"])
    wnet.update(M2["net"])
    if R["nodes"] != wn or R["nattr"] != wattr or gedges != wedges or R["net"] != wnet:
        out.append(("lshift", f"H1 << H2: nodes {R['nodes']} edges {[set(m) for m, _ in gedges]}; expected union of nodes {wn} and "
                    f"disjoint union of edges {[set(m) for m, _ in wedges]} with right-hand attribute precedence"))


def check_complex(S, spec, out, stats):
    import xgi

    M = model(S)
    nodes, edges, mem = M["nodes"], M["edges"], M["mem"]
    key0 = C.state_key(S)
    for iso, conn, rel in itertools.product((False, True), repeat=3):
        wn = list(nodes)
        if not iso:
            used = set().union(*mem.values()) if mem else set()
            wn = [n for n in wn if n in used]
        if conn and not wn:
            continue
        kw = dict(isolates=iso, connected=conn, relabel=rel)
        stats["n"] += 1
        R = S.cleanup(in_place=False, **kw)
        if C.state_key(S) != key0:
            out.append(("cleanup", "SimplicialComplex.cleanup(in_place=False) modified its input"))
            return
        RM = model(R)
        if rel:
            RM, probs = unrelabel(RM)
            if RM is None or probs:
                out.append(("cleanup", f"SimplicialComplex.cleanup({kw}): {'; '.join(probs)}"))
                continue
        cands = [frozenset(wn)]
        if conn:
            comps = components(wn, {e: m for e, m in mem.items() if m <= set(wn)})
            best = max(len(c) for c in comps)
            cands = [c for c in comps if len(c) == best]
        ok = False
        for c in cands:
            we = [e for e in edges if mem[e] <= c]
            if set(RM["nodes"]) == set(c) and RM["edges"] == we and all(RM["mem"][e] == mem[e] for e in we):
                ok = True
        if not ok:
            out.append(("cleanup", f"SimplicialComplex.cleanup({kw}): nodes {RM['nodes']} simplices {RM['edges']}; expected the "
                        f"complex induced on one of {list(map(set, cands))}"))
    # k_skeleton / cut_to_order / from_max_simplices
    if edges:
        mo = max(len(m) for m in mem.values()) - 1
        for k in range(0, mo + 1):
            for fn in (xgi.k_skeleton, xgi.cut_to_order):
                stats["n"] += 1
                R = model(fn(S, k))
                we = [e for e in edges if len(mem[e]) - 1 <= k]
                if R["nodes"] != nodes or R["edges"] != we or any(R["mem"][e] != mem[e] for e in we) or R["cls"] != "SimplicialComplex":
                    out.append(("skeleton", f"{fn.__name__}(order={k}): simplices {R['edges']}, expected {we}"))
    stats["n"] += 1
    Hm = xgi.from_max_simplices(S)
    sets = list(mem.values())
    wmax = sorted((sorted_repr(m) for m in sets if not any(m < o for o in sets)))
    got = sorted(sorted_repr(m) for m in Hm.edges.members())
    if got != wmax or list(Hm.nodes) != nodes or type(Hm).__name__ != "Hypergraph":
        out.append(("from-max-simplices", f"from_max_simplices: edges {got}, maximal simplices {wmax}; nodes {list(Hm.nodes)} vs {nodes}"))


def check_directed(D, spec, out, stats):
    M = model(D)
    nodes, edges, mem = M["nodes"], M["edges"], M["mem"]
    for iso, rel in itertools.product((False, True), repeat=2):
        stats["n"] += 1
        R = D.cleanup(isolates=iso, relabel=rel, in_place=False)
        RM = model(R)
        if rel:
            RM, probs = unrelabel(RM)
            if RM is None or probs:
                out.append(("cleanup", f"DiHypergraph.cleanup(isolates={iso}, relabel={rel}): {'; '.join(probs)}"))
                continue
        used = set()
        for t, h in mem.values():
            used |= set(t) | set(h)
        wn = [n for n in nodes if iso or n in used]
        if RM["nodes"] != wn or RM["edges"] != edges or RM["mem"] != mem or RM["eattr"] != M["eattr"]:
            out.append(("cleanup", f"DiHypergraph.cleanup(isolates={iso}, relabel={rel}): nodes {RM['nodes']} edges {RM['mem']}; "
                        f"expected nodes {wn} and all edges unchanged"))


def _work(item):
    kind, spec = item
    out = []
    stats = {"n": 0}
    with warnings.catch_warnings():
        warnings.simplefilter("ignore")
        try:
            if kind == "lshift":
                check_lshift(spec, out, stats)
            else:
                X = F.build(spec)
                if kind == "H":
                    check_cleanup_h(X, spec, out, stats)
                    check_relabel(X, spec, out, stats)
                    check_sub_dual_etc(X, spec, out, stats)
                    # the same object again after in-place edits (another history, other members, one more edge)
                    F.detour(X)
                    F.morph(X)
                    F.rename(X)  # one node replaced by a node with a new label
                    F.grow(X)
                    k = len(out)
                    check_sub_dual_etc(X, spec, out, stats, allow_inplace=False)
                    out[k:] = [(m, "[same object re-evaluated after in-place edits] " + msg) for m, msg in out[k:]]
                elif kind == "S":
                    check_complex(X, spec, out, stats)
                    check_relabel(X, spec, out, stats)
                else:
                    check_directed(X, spec, out, stats)
                    check_relabel(X, spec, out, stats)
        except RecursionError:
            raise
        except Exception as e:  # noqa: BLE001
            import traceback

            out.append(("raises", f"{type(e).__name__}: {e} at {traceback.format_exc().splitlines()[-3].strip()}"))
    return {"n": stats["n"], "viols": [(m, msg, kind, spec) for m, msg in out[:4]]}


def family(tier):
    from checks.c10 import decorate

    q = tier == "quick"
    base = list(F.undirected([1, 2, 3], 3)) + list(F.undirected([1, 2, 3, 4], 2, min_edges=1))
    if not q:
        base = list(F.undirected([1, 2, 3, 4], 3)) + list(F.undirected([1, 2, 3, 4, 5], 2, min_edges=2))
    items = []
    for k, s in enumerate(base):
        items.append(("H", s))
        if k % 2 == 0:
            m = len(s["edges"])
            t = F.relabel(s, node_map={n: "v%d" % (9 - n) for n in s["nodes"]}, edge_ids=["e%d" % (m - i) for i in range(m)],
                          reverse_nodes=True)
            items.append(("H", decorate(t, 1) if k % 4 == 0 else t))
        if k % 3 == 0:
            m = len(s["edges"])
            u = F.relabel(s, node_map={1: 7, 2: 3, 3: 9, 4: 1}, edge_ids=[10 * (m - i) for i in range(m)])
            u = decorate(u, 2)
            u["nattr"] = {u["nodes"][0]: {"label": "keep?", "c": 1}} if u["nodes"] else {}
            items.append(("H", u))
        if k % 9 == 0:
            items.append(("H", F.with_empty_edge(s)))
        if k % 5 == 0:
            # label *types* other than int / str: floats, tuples, mixed types, for node labels and edge IDs
            m = len(s["edges"])
            for j, (_, nm) in enumerate(F.exotic_label_maps(s["nodes"])):
                eids = [[i + 0.5 for i in range(m)], [("e", i) for i in range(m)], ["a", 7, (1, 2), 2.5, "b", 11][:m],
                        list(range(m))][j % 4]
                if j % 4 == 2 and len({frozenset(mm) for _, mm in s["edges"]}) < m:
                    # merging duplicates takes "the first of the sorted duplicate IDs" (documented): IDs of duplicates must
                    # be mutually orderable, so mixed-type IDs go with duplicate-free inputs only
                    eids = list(range(m))
                items.append(("H", F.relabel(s, node_map=nm, edge_ids=eids)))
    for s in F.wide():  # more than ten nodes and edges: positions with two digits
        items.append(("H", s))
    red = base[::17][:14]
    for a, b in itertools.product(red, repeat=2):
        b2 = F.relabel(b, node_map={1: 1, 2: 5, 3: 6, 4: 2})
        b2["nattr"] = {b2["nodes"][0]: {"c": "right"}} if b2["nodes"] else {}
        b2["net"] = {"name": "right", "r": 1}
        a2 = dict(a)
        a2["nattr"] = {a["nodes"][0]: {"c": "left", "d": 0}} if a["nodes"] else {}
        a2["net"] = {"name": "left", "l": 1}
        if a2["edges"]:
            a2["eattr"] = {0: {"w": 1}}
        items.append(("lshift", (a2, b2)))
    for s in F.complexes([1, 2, 3, 4]):
        items.append(("S", s))
        if len(s["edges"]) >= 2:
            items.append(("S", F.relabel(s, node_map={n: "v%d" % (9 - n) for n in s["nodes"]})))
    for s in list(F.directed([1, 2, 3], 2, isolated=True))[::(3 if q else 1)]:
        items.append(("D", s))
    return items


def run(tier, ev):
    items = family(tier)
    ev.cov["rule"] = ("all hypergraphs over 3 labels <=3 edges and 4 labels <=2 edges (thorough: 4/<=3) with int, string and "
                      "shuffled-int labels, attributes, a pre-existing 'label' attribute, empty edges; x all 2^5 cleanup flag "
                      "combinations x in_place; relabelling (2 attribute names, in_place); subhypergraph x every node subset x "
                      "every edge subset x keep_isolates; dual and dual.dual; complement; cut_to_order x every order; "
                      "largest_connected_hypergraph x in_place; H1 << H2 over 196 pairs with overlapping nodes and conflicting "
                      "attributes; every simplicial complex on <=4 vertices x 2^3 cleanup flags, k_skeleton, from_max_simplices; "
                      "directed hypergraphs x 2^2 cleanup flags; each compared with a brute-force construction")
    res = explore.parallel_map(_work, items, env.nproc())
    viols = []
    n = 0
    for r in res:
        n += r["n"]
        for mon, msg, kind, spec in r["viols"]:
            viols.append(Violation(PROP, mon, msg, {"check": "c19", "kind": kind, "spec": spec, "monitor": mon}, {"what": mon}))
    ev.add(states=len(items), transitions=n, evaluations=n, distinct_nontrivial=len(items))
    ev.cov["inputs"] = {k: sum(1 for kk, _ in items if kk == k) for k in ("H", "S", "D", "lshift")}
    ev.sample({"spec": items[30][1], "derived": ["cleanup x 32 flags x in_place", "subhypergraph x subsets", "dual", "complement",
                                                 "cut_to_order", "largest_connected_hypergraph"]})
    ev.assumptions += ["any largest component and any representative of a duplicate class are accepted",
                       "cleanup(connected=True) on a network whose residue has no nodes is outside the domain"]
    return viols


def replay(case):
    # state kept *between calls* (a cache keyed by the shape of the input) only shows on a later call: the recorded input
    # is evaluated after a sibling of the same shape (same nodes, labels rotated by one), as it was in the search, where
    # one process evaluates many inputs in a row
    if case["kind"] == "H" and case["spec"].get("nodes"):
        try:
            ns = list(case["spec"]["nodes"])
            rot = dict(zip(ns, ns[1:] + ns[:1]))
            sib = F.relabel(case["spec"], node_map=rot)
            sib["nodes"] = ns
            _work(("H", sib))
        except Exception:  # noqa: BLE001
            pass
    r = _work((case["kind"], case["spec"] if case["kind"] != "lshift" else tuple(case["spec"])))
    return [f"{m}: {msg}" for m, msg, _, _ in r["viols"] if m == case.get("monitor")]
