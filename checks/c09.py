"""C09 Structural measures are invariant under relabelling and insertion order (DESIGN.md 5 C09; E2 x relabelings).

For every hypergraph of the enumerated family and every relabelling / re-ordering of a finite grid, each observable
f satisfies f(relabel(H)) == relabel(f(H)).  Observables return values in which node labels appear as ("n", x) and
edge IDs as ("e", x), so that transport through the relabelling is a plain recursive substitution."""
import itertools
import math
import warnings

import numpy as np

from xmc import canon as C
from xmc import env, explore, families as F
from xmc.evidence import Violation

PROP = "C09"
TOL = 1e-9


def N(x):
    return ("n", x)


def E(x):
    return ("e", x)


def _mat(res, rows="n", cols=None):
    """(M, rowdict[, coldict]) -> {(row label, col label): value} for the non-zero entries + shape."""
    if not isinstance(res, tuple):
        raise TypeError("index=True result expected")
    M = res[0]
    rd = res[1]
    cd = res[2] if len(res) > 2 else rd
    ck = cols or rows
    if hasattr(M, "toarray"):
        M = M.toarray()
    M = np.asarray(M)
    out = {}
    if M.size:
        for i, j in zip(*np.nonzero(M)):
            out[((rows, rd[int(i)]), (ck, cd[int(j)]))] = float(M[i, j])
    return {"shape": tuple(M.shape) if M.size else (len(rd), len(cd)), "nz": out,
            "rows": {(rows, v) for v in rd.values()}, "cols": {(ck, v) for v in cd.values()}}


def observables(uniform):
    import xgi

    O = {}
    O["degree"] = lambda H: {N(n): v for n, v in H.nodes.degree.asdict().items()}
    O["degree(order=1)"] = lambda H: {N(n): v for n, v in H.nodes.degree(order=1).asdict().items()}
    O["size"] = lambda H: {E(e): v for e, v in H.edges.size.asdict().items()}
    O["order(degree=1)"] = lambda H: {E(e): v for e, v in H.edges.order(degree=1).asdict().items()}
    O["average_neighbor_degree"] = lambda H: {N(n): v for n, v in H.nodes.average_neighbor_degree.asdict().items()}
    O["clustering_coefficient"] = lambda H: {N(n): v for n, v in xgi.clustering_coefficient(H).items()}
    O["local_clustering_coefficient"] = lambda H: {N(n): v for n, v in xgi.local_clustering_coefficient(H).items()}
    for kind in ("union", "min", "max"):
        O[f"two_node_clustering_coefficient({kind})"] = (
            lambda H, kind=kind: {N(n): v for n, v in xgi.two_node_clustering_coefficient(H, kind=kind).items()})
    O["nodes.local_clustering_coefficient"] = lambda H: {N(n): v for n, v in H.nodes.local_clustering_coefficient.asdict().items()}
    O["nodes.clustering_coefficient"] = lambda H: {N(n): v for n, v in H.nodes.clustering_coefficient.asdict().items()}
    O["connected_components"] = lambda H: {frozenset(N(n) for n in c) for c in xgi.connected_components(H)}
    O["number_connected_components"] = lambda H: xgi.number_connected_components(H)
    O["is_connected"] = lambda H: xgi.is_connected(H)
    O["largest_connected_component(size)"] = lambda H: len(xgi.largest_connected_component(H))
    O["node_connected_component"] = lambda H: {N(n): frozenset(N(m) for m in xgi.node_connected_component(H, C.fresh(n))) for n in H.nodes}
    O["shortest_path_length"] = lambda H: {N(s): {N(t): v for t, v in d.items()} for s, d in xgi.shortest_path_length(H)}
    for kw in ({}, {"order": 1}, {"max_order": 2}, {"ignore_singletons": True}, {"order": 2, "ignore_singletons": True}):
        O[f"density({kw})"] = lambda H, kw=kw: xgi.density(H, **kw)
        O[f"incidence_density({kw})"] = lambda H, kw=kw: xgi.incidence_density(H, **kw)
    if uniform:
        for kind in ("uniform", "top-2", "top-bottom"):
            O[f"degree_assortativity({kind}, exact)"] = lambda H, kind=kind: xgi.degree_assortativity(H, kind=kind, exact=True)
        O["dynamical_assortativity"] = lambda H: xgi.dynamical_assortativity(H)
    for fn in ("edit_simpliciality", "face_edit_simpliciality", "simplicial_fraction", "simplicial_edit_distance",
               "mean_face_edit_distance"):
        for ms in (1, 2):
            O[f"{fn}(min_size={ms})"] = lambda H, fn=fn, ms=ms: getattr(xgi, fn)(H, min_size=ms)
    O["nodes.local_edit_simpliciality"] = lambda H: {N(n): v for n, v in H.nodes.local_edit_simpliciality.asdict().items()}
    O["maximal"] = lambda H: {E(e) for e in H.edges.maximal()}
    O["maximal(strict)"] = lambda H: {E(e) for e in H.edges.maximal(strict=True)}
    O["duplicates(count)"] = lambda H: len(H.edges.duplicates())
    O["duplicate classes"] = lambda H: _dup_classes(H)
    O["singletons"] = lambda H: {E(e) for e in H.edges.singletons()}
    O["isolates"] = lambda H: {N(n) for n in H.nodes.isolates()}
    O["katz_centrality"] = lambda H: {N(n): v for n, v in xgi.katz_centrality(H, cutoff=20).items()}
    O["edge_neighborhood"] = lambda H: {N(n): _multiset(frozenset(N(m) for m in nb) for nb in xgi.edge_neighborhood(H, n)) for n in H.nodes}
    O["degree_counts"] = lambda H: list(xgi.degree_counts(H))
    O["degree_histogram"] = lambda H: [list(x) for x in xgi.degree_histogram(H)]
    O["unique_edge_sizes"] = lambda H: list(xgi.unique_edge_sizes(H))
    O["max_edge_order"] = lambda H: xgi.max_edge_order(H)
    O["is_uniform"] = lambda H: xgi.is_uniform(H)
    O["num_edges_order(1)"] = lambda H: xgi.num_edges_order(H, 1)
    # matrices through the returned index maps
    O["incidence_matrix"] = lambda H: _mat(xgi.incidence_matrix(H, index=True), "n", "e")
    O["incidence_matrix(order=1)"] = lambda H: _mat(xgi.incidence_matrix(H, order=1, index=True), "n", "e")
    O["adjacency_matrix"] = lambda H: _mat(xgi.adjacency_matrix(H, index=True))
    O["adjacency_matrix(weighted,s=2)"] = lambda H: _mat(xgi.adjacency_matrix(H, weighted=True, s=2, sparse=False, index=True))
    O["intersection_profile"] = lambda H: _mat(xgi.intersection_profile(H, index=True), "e")
    O["clique_motif_matrix"] = lambda H: _mat(xgi.clique_motif_matrix(H, index=True))
    O["degree_matrix"] = lambda H: _deg(xgi.degree_matrix(H, index=True))
    O["laplacian(1)"] = lambda H: _mat(xgi.laplacian(H, order=1, index=True))
    O["laplacian(2, rescale)"] = lambda H: _mat(xgi.laplacian(H, order=2, rescale_per_node=True, index=True))
    O["multiorder_laplacian"] = lambda H: _mat(xgi.multiorder_laplacian(H, [1, 2], [1, 0.5], index=True))
    O["normalized_hypergraph_laplacian"] = lambda H: _mat(xgi.normalized_hypergraph_laplacian(H, index=True))
    O["normalized_hypergraph_laplacian(weighted)"] = lambda H: _mat(xgi.normalized_hypergraph_laplacian(H, weighted=True, sparse=False, index=True))
    O["degree(weight)"] = lambda H: {N(n): v for n, v in H.nodes.degree(weight="weight").asdict().items()}
    # every order-free reduction of the per-ID statistics (ties included: a tie must not be broken by insertion order)
    stats = {"nodes.degree": lambda H: H.nodes.degree, "edges.size": lambda H: H.edges.size,
             "edges.order": lambda H: H.edges.order, "nodes.degree(order=2)": lambda H: H.nodes.degree(order=2),
             "nodes.average_neighbor_degree": lambda H: H.nodes.average_neighbor_degree,
             "nodes.clustering_coefficient": lambda H: H.nodes.clustering_coefficient,
             "nodes.local_clustering_coefficient": lambda H: H.nodes.local_clustering_coefficient,
             "nodes.two_node_clustering_coefficient": lambda H: H.nodes.two_node_clustering_coefficient}
    reductions = {"max": lambda s: s.max(), "min": lambda s: s.min(), "sum": lambda s: s.sum(), "mean": lambda s: s.mean(),
                  "median": lambda s: s.median(), "mode": lambda s: s.mode(), "std": lambda s: s.std(), "var": lambda s: s.var(),
                  "moment(2)": lambda s: s.moment(2), "moment(3,center)": lambda s: s.moment(3, center=True),
                  "unique+counts": lambda s: [list(map(float, x)) for x in s.unique(return_counts=True)],
                  "ashist(3)": lambda s: [[float(y) for y in row] for row in s.ashist(bins=3).to_numpy()]}
    integer_valued = {"nodes.degree", "edges.size", "edges.order", "nodes.degree(order=2)"}
    for sn, sf in stats.items():
        for rn, rf in reductions.items():
            # grouping equal values (mode, unique, histogram bins) is only order-free in exact arithmetic: the float-valued
            # statistics differ in the last bit between summation orders, so those reductions are asked of integer statistics only
            if rn in ("mode", "unique+counts", "ashist(3)") and sn not in integer_valued:
                continue
            O[f"{sn}.{rn}"] = lambda H, sf=sf, rf=rf: rf(sf(H))
    for val, mode in ((1, "eq"), (1, "gt"), (2, "leq"), (2, "neq")):
        O[f"nodes.filterby(degree,{val},{mode})"] = lambda H, val=val, mode=mode: {N(n) for n in H.nodes.filterby("degree", val, mode)}
        O[f"edges.filterby(size,{val + 1},{mode})"] = lambda H, val=val, mode=mode: {E(e) for e in H.edges.filterby("size", val + 1, mode)}
    O["nodes.multi.max"] = lambda H: [float(x) for x in np.asarray(H.nodes.multi(["degree", "clustering_coefficient"]).asnumpy()).max(axis=0)] \
        if H.num_nodes else None
    O["to_line_graph"] = lambda H: _graph(xgi.to_line_graph(H), "e")
    O["to_graph"] = lambda H: _graph(xgi.to_graph(H), "n")
    return O


def _multiset(it):
    d = {}
    for x in it:
        d[x] = d.get(x, 0) + 1
    return d


def _dup_classes(H):
    mem = H.edges.members(dtype=dict)
    dups = set(H.edges.duplicates())
    classes = {}
    for e, m in mem.items():
        classes.setdefault(frozenset(m), []).append(e)
    return _multiset((frozenset(N(n) for n in fs), len([e for e in cl if e in dups])) for fs, cl in classes.items())


def _deg(res):
    K, rd = res
    K = np.asarray(K).ravel()
    return {N(rd[i]): float(K[i]) for i in range(len(K))}


def _graph(G, kind):
    return {"nodes": {(kind, v) for v in G.nodes}, "edges": {frozenset(((kind, u), (kind, v))) for u, v in G.edges}}


def transport(v, nm, em):
    if isinstance(v, tuple) and len(v) == 2 and v[0] in ("n", "e") and not isinstance(v[1], tuple):
        return (v[0], (nm if v[0] == "n" else em).get(v[1], v[1]))
    if isinstance(v, dict):
        return {transport(k, nm, em): transport(x, nm, em) for k, x in v.items()}
    if isinstance(v, (set, frozenset)):
        return type(v)(transport(x, nm, em) for x in v)
    if isinstance(v, (list, tuple)):
        return type(v)(transport(x, nm, em) for x in v)
    return v


def same(a, b):
    if isinstance(a, dict) and isinstance(b, dict):
        return a.keys() == b.keys() and all(same(a[k], b[k]) for k in a)
    if isinstance(a, (set, frozenset)) and isinstance(b, (set, frozenset)):
        return a == b
    if isinstance(a, (list, tuple)) and isinstance(b, (list, tuple)):
        return len(a) == len(b) and all(same(x, y) for x, y in zip(a, b))
    if isinstance(a, (float, np.floating)) or isinstance(b, (float, np.floating)):
        try:
            a, b = float(a), float(b)
        except (TypeError, ValueError):
            return False
        if math.isnan(a) or math.isnan(b):
            return math.isnan(a) and math.isnan(b)
        if math.isinf(a) or math.isinf(b):
            return a == b
        return abs(a - b) <= TOL * max(1.0, abs(a), abs(b))
    return a == b


def evaluate(H, O):
    out = {}
    with warnings.catch_warnings():
        warnings.simplefilter("ignore")
        for name, f in O.items():
            try:
                out[name] = ("ok", f(H))
            except RecursionError:
                raise
            except Exception as e:  # noqa: BLE001
                out[name] = ("raise", type(e).__name__)
    return out


def variants(spec):
    """The relabelling / re-ordering grid for one base spec: (description, node_map, edge_ids, new spec)."""
    nodes = list(spec["nodes"])
    m = len(spec["edges"])
    out = []
    base_ids = list(range(m))
    # all node permutations
    for perm in itertools.permutations(nodes):
        if list(perm) == nodes:
            continue
        nm = dict(zip(nodes, perm))
        out.append((f"node permutation {nm}", nm, base_ids, F.relabel(spec, node_map=nm, edge_ids=base_ids)))
    nm10 = {n: n + 10 for n in nodes}
    out.append(("nodes +10", nm10, base_ids, F.relabel(spec, node_map=nm10, edge_ids=base_ids)))
    # integers whose set iteration order is not their sorted order (8 hashes to slot 0 of a small table)
    nmh = dict(zip(sorted(nodes), [8, 1, 16, 3, 24, 5][:len(nodes)]))
    out.append(("nodes -> hash-unordered integers", nmh, base_ids, F.relabel(spec, node_map=nmh, edge_ids=base_ids)))
    nms = {n: "v%s" % (9 - n) for n in nodes}
    out.append(("nodes -> strings (reverse lexical order)", nms, base_ids, F.relabel(spec, node_map=nms, edge_ids=base_ids)))
    # unequal labels with equal hashes (hash(-1) == hash(-2); integers that differ by 2**61 - 1): anything that keys on a
    # hash instead of on the label merges them.  All integers, so that they stay mutually orderable.
    M61 = 2 ** 61 - 1
    nmc = dict(zip(sorted(nodes), [-1, -2, 5, 5 + M61, 5 + 2 * M61][:len(nodes)]))
    out.append(("nodes -> hash-colliding labels", nmc, base_ids, F.relabel(spec, node_map=nmc, edge_ids=base_ids)))
    nmneg = {n: -n for n in nodes}
    out.append(("nodes -> negative integers", nmneg, base_ids, F.relabel(spec, node_map=nmneg, edge_ids=base_ids)))
    if m <= 4:
        eidc = [-1, -2, 3, 3 + M61][:m]
        out.append(("edge IDs -> hash-colliding IDs", {}, eidc, F.relabel(spec, edge_ids=eidc)))
    # edge id maps
    for perm in itertools.permutations(base_ids):
        if list(perm) == base_ids:
            continue
        out.append((f"edge IDs permuted {perm}", {}, list(perm), F.relabel(spec, edge_ids=list(perm))))
    gaps = [10 * (i + 1) + 3 for i in base_ids]
    out.append(("edge IDs with gaps", {}, gaps, F.relabel(spec, edge_ids=gaps)))
    strs = ["e%s" % (9 - i) for i in base_ids]
    out.append(("edge IDs -> strings", {}, strs, F.relabel(spec, edge_ids=strs)))
    # IDs need only be hashable: tuples, frozensets (partially ordered), several types at once (not orderable), floats
    tups = [("e", 9 - i) for i in base_ids]
    out.append(("edge IDs -> tuples", {}, tups, F.relabel(spec, edge_ids=tups)))
    fsets = [frozenset({"id", i}) for i in base_ids]
    out.append(("edge IDs -> frozensets", {}, fsets, F.relabel(spec, edge_ids=fsets)))
    mix = ["a", 7, (1, 2), 2.5, frozenset({1}), b"z"][:m]
    if m <= 6:
        out.append(("edge IDs -> mixed types", {}, mix, F.relabel(spec, edge_ids=mix)))
    flo = [10.5 - i for i in base_ids]
    out.append(("edge IDs -> decreasing floats", {}, flo, F.relabel(spec, edge_ids=flo)))
    # insertion orders
    for perm in itertools.permutations(base_ids):
        if list(perm) == base_ids:
            continue
        out.append((f"edge insertion order {perm}", {}, base_ids, F.relabel(spec, edge_ids=base_ids, edge_order=list(perm))))
    out.append(("reversed node insertion", {}, base_ids, F.relabel(spec, edge_ids=base_ids, reverse_nodes=True)))
    out.append(("reversed member order", {}, base_ids, F.relabel(spec, edge_ids=base_ids, reverse_members=True)))
    # combined
    if m:
        rev = base_ids[::-1]
        out.append(("strings + reversed IDs + reversed insertion", nms, strs[::-1],
                    F.relabel(F.relabel(spec, node_map=nms, edge_ids=strs[::-1]), edge_order=rev, reverse_nodes=True,
                              reverse_members=True)))
    return out


def _is_uniform(spec):
    sizes = {len(set(m)) for _, m in spec["edges"]}
    return len(sizes) == 1 and spec["edges"] and min(sizes) >= 2


def _work(spec):
    uniform = _is_uniform(spec)
    O = observables(uniform)
    m = len(spec["edges"])
    spec = dict(spec)
    spec["eattr"] = {i: {"weight": [0.5, 2, 1.5, 3][i % 4]} for i in range(m)}  # distinct weights travel with the edges
    base_spec = F.relabel(spec, edge_ids=list(range(m)))
    Hb = F.build(base_spec)
    base = evaluate(Hb, O)
    evals = 0
    viols = []
    nontrivial = 0
    # the same object, evaluated again after an in-place detour (first node and first edge removed and re-inserted:
    # a change of insertion order only): every observable must be unchanged
    F.detour(Hb)
    again = evaluate(Hb, O)
    evals += len(O)
    for name in O:
        b, g = base[name], again[name]
        if b[0] != g[0] or (b[0] == "ok" and not same(b[1], g[1])):
            viols.append((name, "second evaluation after in-place detour", base_spec,
                          f"{name}: {str(g)[:200]} on the same object after removing and re-adding its first node and edge, "
                          f"{str(b)[:200]} before"))
    for desc, nm, eids, vs in variants(spec):
        em = dict(zip(range(m), eids))
        got = evaluate(F.build(vs), O)
        evals += len(O)
        for name in O:
            b, g = base[name], got[name]
            if b[0] == "raise" and g[0] == "raise":
                continue
            if b[0] != g[0]:
                if len(viols) < 4:
                    viols.append((name, desc, vs, f"{name}: base {b}, after '{desc}' {g}"))
                continue
            nontrivial += 1
            want = transport(b[1], nm, em)
            if not same(want, g[1]):
                if len(viols) < 4:
                    viols.append((name, desc, vs, f"{name}: after '{desc}' got {str(g[1])[:300]}, expected {str(want)[:300]}"))
    return {"evals": evals, "nontrivial": nontrivial, "viols": viols, "base": base_spec, "nvariants": len(variants(spec))}


# ---------------------------------------------------------------------------------------------------------------
# simplicial complexes: boundary matrices and Hodge Laplacians


def _sc_observe(S):
    """Label-keyed renderings of the boundary matrices and Hodge Laplacians of S (default orientations).
    signed: {k: {(face members, simplex members): +-1}}; unsigned: the same with absolute values; chain: B_{k-1} B_k = 0;
    spectra: sorted eigenvalues of each Hodge Laplacian; betti: kernel dimensions."""
    import xgi

    mem = {e: frozenset(m) for e, m in S.edges.members(dtype=dict).items()}
    dim = max([len(m) - 1 for m in mem.values()], default=0)
    signed, spectra, betti, shapes = {}, {}, {}, {}
    chain = True
    Bs = {}
    for k in range(1, dim + 2):
        B, rd, cd = xgi.boundary_matrix(S, k, index=True)
        B = np.asarray(B)
        Bs[k] = B
        shapes[k] = tuple(B.shape)
        ent = {}
        if B.size:
            for i, j in zip(*np.nonzero(B)):
                r = frozenset([rd[int(i)]]) if k == 1 else mem[rd[int(i)]]
                ent[(frozenset(N(x) for x in r), frozenset(N(x) for x in mem[cd[int(j)]]))] = float(B[i, j])
        signed[k] = ent
    for k in range(1, dim + 1):
        A, B = Bs[k], Bs[k + 1]
        if A.size and B.size and A.shape[1] == B.shape[0] and np.any(A @ B != 0):
            chain = False
    for k in range(0, dim + 1):
        L = np.asarray(xgi.hodge_laplacian(S, k))
        if L.size:
            w = np.linalg.eigvalsh(L)
            spectra[k] = [round(float(x), 7) + 0.0 for x in w]
            betti[k] = int(np.sum(np.abs(w) < 1e-8))
    return {"signed": signed, "unsigned": {k: {kk: abs(v) for kk, v in d.items()} for k, d in signed.items()},
            "shapes": shapes, "chain": chain, "spectra": spectra, "betti": betti}


def _sc_variants(spec):
    """(description, node map, order-preserving?, new spec).  Order-preserving variants (same labels in another insertion
    order, or a monotone relabelling) must reproduce the *signed* matrices, because reference orientations follow the
    label order; the others must reproduce everything that does not depend on the reference orientation."""
    nodes = list(spec["nodes"])
    m = len(spec["edges"])
    out = []
    out.append(("reversed node insertion", {}, True, F.relabel(spec, reverse_nodes=True)))
    out.append(("reversed member order", {}, True, F.relabel(spec, reverse_members=True)))
    out.append(("reversed node insertion and member order", {}, True, F.relabel(spec, reverse_nodes=True, reverse_members=True)))
    for perm in itertools.permutations(range(m)):
        if list(perm) != list(range(m)) and m <= 3:
            out.append((f"simplex insertion order {perm}", {}, True, F.relabel(spec, edge_order=list(perm))))
    if m > 3:
        out.append(("simplex insertion reversed", {}, True, F.relabel(spec, edge_order=list(range(m))[::-1])))
    for perm in itertools.permutations(nodes):
        if list(perm) != nodes:
            # the same labels attached to other vertices *and* first seen in another order
            nm = dict(zip(nodes, perm))
            out.append((f"node permutation {nm}", nm, False, F.relabel(spec, node_map=nm)))
    mono = {n: 10 * n + 3 for n in nodes}
    out.append(("monotone relabelling n -> 10 n + 3", mono, True, F.relabel(spec, node_map=mono)))
    out.append(("monotone relabelling, reversed insertion", mono, True, F.relabel(spec, node_map=mono, reverse_nodes=True, reverse_members=True)))
    strs = {n: "v%d" % (9 - n) for n in nodes}
    out.append(("strings in reverse lexical order", strs, False, F.relabel(spec, node_map=strs)))
    strs2 = {n: "v%d" % n for n in nodes}
    out.append(("strings in lexical order, reversed insertion", strs2, True, F.relabel(spec, node_map=strs2, reverse_nodes=True)))
    hu = dict(zip(sorted(nodes), [8, 1, 16, 3, 24][:len(nodes)]))
    out.append(("hash-unordered integers", hu, False, F.relabel(spec, node_map=hu)))
    return out


def _work_sc(spec):
    viols = []
    evals = nontrivial = 0
    with warnings.catch_warnings():
        warnings.simplefilter("ignore")
        base = _sc_observe(F.build(spec))
        vs_all = _sc_variants(spec)
        for desc, nm, keeps_order, vs in vs_all:
            try:
                got = _sc_observe(F.build(vs))
            except Exception as e:  # noqa: BLE001
                viols.append(("boundary/hodge", desc, vs, f"boundary matrices of the variant '{desc}' raised {type(e).__name__}: {e}"))
                continue
            for key in ("unsigned", "shapes", "chain", "spectra", "betti") + (("signed",) if keeps_order else ()):
                evals += 1
                want = transport(base[key], nm, {}) if key in ("unsigned", "signed") else base[key]
                nontrivial += 1
                if not same(want, got[key]):
                    if len(viols) < 4:
                        viols.append((f"boundary/hodge:{key}", desc, vs, f"{key} of the boundary matrices / Hodge Laplacians after "
                                      f"'{desc}': {str(got[key])[:300]}, expected {str(want)[:300]}"))
    return {"evals": evals, "nontrivial": nontrivial, "viols": viols, "base": spec, "nvariants": len(vs_all)}


def family(tier):
    if tier == "quick":
        fam = list(F.undirected([1, 2, 3], 3)) + list(F.undirected([1, 2, 3, 4], 2, min_edges=1))
        # nested / overlapping larger edges: all triples of distinct edges of size >= 2 over 4 labels
        fam += list(F.undirected([1, 2, 3, 4], 3, isolated=False, multi=False, lo=2, min_edges=3))
    else:
        fam = list(F.undirected([1, 2, 3, 4], 3)) + list(F.undirected([1, 2, 3, 4, 5], 2, min_edges=1))
    return fam


def run(tier, ev):
    fam = family(tier)
    ev.cov["rule"] = ("all hypergraphs over 3 labels with <=3 edges, over 4 labels with <=2 edges, and all triples of distinct "
                      "edges of size >=2 over 4 labels (quick; thorough: 4 labels <=3 edges, 5 labels <=2 edges; multi-edges, "
                      "singletons, isolated nodes) x relabelling grid "
                      "(all node permutations, +10, hash-unordered integers, strings; all edge-ID permutations, gaps, strings; all edge insertion "
                      "orders, reversed node insertion, reversed member order, combined) x ~70 observables; a case is one "
                      "(network, relabelling, observable); non-trivial = both sides returned a value that was compared; plus every "
                      "simplicial complex on <=4 vertices x (insertion orders, all node permutations, monotone / string / "
                      "hash-unordered relabellings) x boundary matrices and Hodge Laplacians: signed entries for order-preserving "
                      "variants, absolute entries, shapes, B_{k-1} B_k = 0, Laplacian spectra and Betti numbers for all")
    res = explore.parallel_map(_work, fam, env.nproc())
    viols = []
    nvar = 0
    for r in res:
        ev.add(evaluations=r["evals"], distinct_nontrivial=r["nontrivial"], transitions=r["evals"])
        nvar += r["nvariants"]
        for name, desc, vs, msg in r["viols"]:
            case = {"check": "c09", "kind": "relabel", "base": r["base"], "variant": vs, "observable": name, "desc": desc}
            viols.append(Violation(PROP, "not-invariant", msg, case, {"observable": name.split("(")[0]}))
    # simplicial complexes
    cfam = [c for c in F.complexes([1, 2, 3, 4], isolated=False) if c["edges"]]
    if tier != "quick":
        cfam += [c for c in F.complexes([1, 2, 3, 4, 5], isolated=False) if 5 in c["nodes"]][::3]
    resc = explore.parallel_map(_work_sc, cfam, env.nproc())
    for r in resc:
        ev.add(evaluations=r["evals"], distinct_nontrivial=r["nontrivial"], transitions=r["evals"])
        nvar += r["nvariants"]
        for name, desc, vs, msg in r["viols"]:
            case = {"check": "c09", "kind": "relabel-complex", "base": r["base"], "variant": vs, "observable": name, "desc": desc}
            viols.append(Violation(PROP, "not-invariant", msg, case, {"observable": name.split(":")[0]}))
    ev.cov["base_complexes"] = len(cfam)
    ev.add(states=len(fam) + len(cfam) + nvar)
    ev.cov["base_networks"] = len(fam)
    ev.cov["relabelled_networks"] = nvar
    ev.cov["observables"] = len(observables(True))
    ev.sample({"base": fam[min(40, len(fam) - 1)], "relabelling": "edge IDs permuted (1, 0)", "observable": "local_clustering_coefficient"})
    ev.assumptions += ["numeric tolerance 1e-9", "observables that raise on both sides are not compared"]
    return viols


def replay(case):
    if case.get("kind") == "relabel-complex":
        r = _work_sc(case["base"])
        return [msg for name, desc, vs, msg in r["viols"] if desc == case["desc"]]
    spec = case["variant"]
    base_spec = case["base"]
    O = observables(_is_uniform(base_spec))
    name = case["observable"]
    if name not in O:
        return []
    O = {name: O[name]}
    base = evaluate(F.build(base_spec), O)[name]
    got = evaluate(F.build(spec), O)[name]
    # recover maps from the two specs (positional correspondence is not kept under re-ordering: use member sets)
    if case["desc"] == "second evaluation after in-place detour":
        Hb = F.build(base_spec)
        b = evaluate(Hb, O)[name]
        F.detour(Hb)
        g = evaluate(Hb, O)[name]
        if b[0] != g[0] or (b[0] == "ok" and not same(b[1], g[1])):
            return [f"{name}: {str(g)[:200]} after the in-place detour, {str(b)[:200]} before"]
        return []
    if base[0] == "raise" and got[0] == "raise":
        return []
    if base[0] != got[0]:
        return [f"{name}: base {base}, after '{case['desc']}' {got}"]
    # find the matching variant again to obtain its maps
    for desc, nm, eids, vs in variants(base_spec):
        if desc == case["desc"]:
            em = dict(zip(range(len(base_spec["edges"])), eids))
            want = transport(base[1], nm, em)
            if not same(want, got[1]):
                return [f"{name}: after '{desc}' got {str(got[1])[:300]}, expected {str(want)[:300]}"]
            return []
    return []
