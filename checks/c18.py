"""C18 Frozen networks cannot be structurally modified (DESIGN.md 5 C18; programs x E1).

At every reachable state the whole call menu (all public methods of the class, found by introspection, with the
C01-C03 argument menus, plus the in-place library functions) is *probed* on an unfrozen twin: a call that changes
nodes, edges or memberships there is a structural mutation and must, on the frozen network, raise XGIError and leave
everything unchanged.  No list of mutators is kept in the checker."""
import inspect
import itertools
import random

from xmc import alphabets as A
from xmc import canon as C
from xmc import explore, histcheck

PROP = "C18"


def _rshuffle(H, *a):
    random.seed(0)
    return H.random_edge_shuffle(*a)


def _ns():
    ns = histcheck.base_namespace()
    ns["rshuffle"] = _rshuffle
    import pandas as pd

    ns["pd"] = pd
    return ns


GENERIC_ARGS = ["()", "(1)", "(0)", "([1, 2])", "([[1, 2]])", "(0, 1)", "(1, 2)", "([0])", "(1, 2, 0, 1)", "({0: [1, 2]})",
                "([1, 2], 0)"]


_CU_COMMON = [
    "xgi.from_hyperedge_list([[5, 6]], create_using=H)", "xgi.from_hyperedge_dict({7: [5, 6]}, create_using=H)",
    "xgi.from_incidence_matrix(np.array([[1], [1]]), create_using=H)", "xgi.from_simplex_dict({7: [5, 6]}, create_using=H)",
    "xgi.from_bipartite_pandas_dataframe(pd.DataFrame([[5, 0], [6, 0]]), create_using=H)",
    "xgi.parse_edgelist(['5 6'], create_using=H)", "xgi.parse_bipartite_edgelist(['5 0', '6 0'], create_using=H)",
    "xgi.trivial_hypergraph(2, create_using=H)", "xgi.empty_hypergraph(create_using=H)",
    "xgi.empty_simplicial_complex(create_using=H)", "xgi.empty_dihypergraph(create_using=H)",
]
CREATE_USING = {
    "Hypergraph": _CU_COMMON + ["xgi.to_hypergraph([[5, 6]], create_using=H)", "xgi.to_hypergraph(xgi.Hypergraph([[5, 6]]), create_using=H)"],
    "SimplicialComplex": _CU_COMMON + ["xgi.to_simplicial_complex([[5, 6]], create_using=H)"],
    "DiHypergraph": ["xgi.to_dihypergraph([([5], [6])], create_using=H)", "xgi.empty_dihypergraph(create_using=H)",
                     "xgi.from_hyperedge_dict({7: ([5], [6])}, create_using=H)", "xgi.empty_hypergraph(create_using=H)"],
}


def structure(obj):
    s = C.snapshot(obj)
    return (tuple(s["nodes"]), tuple(s["edges"]), tuple(sorted((repr(k), repr(v)) for k, v in s["members"].items())))


def menu_for(obj):
    """All calls tried at one state: static alphabet + state-dependent menus + generic calls of every public method the
    alphabets do not mention (so that a newly added mutator is probed as well)."""
    cls = type(obj).__name__
    if cls == "Hypergraph":
        ops = A.hypergraph_static() + A.hypergraph_deviant() + A.gen_member_removals(obj) + A.gen_swaps(obj)[:12]
        ops += ["rshuffle(H)"]
        es = list(obj.edges)
        if len(es) >= 2:
            ops.append(f"rshuffle(H, {es[0]!r}, {es[1]!r})")
    elif cls == "DiHypergraph":
        ops = A.dihypergraph_static() + A.dihypergraph_deviant() + A.gen_dimember_removals(obj)
    else:
        ops = A.simplicial_static() + A.simplicial_deviant() + A.gen_simplex_removals(obj)
        # inherited Hypergraph mutators are reachable on a complex too
        ops += ["H.clear_edges()", "rshuffle(H)", "H.merge_duplicate_edges()", "H.update(edges=[[1, 2]], nodes=[3])",
                "H.remove_node_from_edge(0, 1)"] + A.gen_swaps(obj)[:6]
    ops += ["xgi.largest_connected_hypergraph(H, in_place=True)"] if cls != "DiHypergraph" else []
    # every combination of the boolean options of cleanup (in place): each step of the pipeline must go through a
    # refusing mutator, whatever the earlier steps were switched to
    try:
        flags = [n for n, p_ in inspect.signature(type(obj).cleanup).parameters.items()
                 if isinstance(p_.default, bool) and n != "in_place"]
        for vals in itertools.product((False, True), repeat=len(flags)):
            ops.append("H.cleanup(" + ", ".join(f"{n}={v}" for n, v in zip(flags, vals)) + ")")
    except (TypeError, ValueError):
        pass
    # library functions that fill the network passed as `create_using` (they empty it first): in-place with respect to it
    ops += CREATE_USING[cls]
    mentioned = {o.split("(", 1)[0].replace("H.", "") for o in ops if o.startswith("H.")}
    mentioned |= {"random_edge_shuffle"}
    for name, f in inspect.getmembers(type(obj), predicate=inspect.isfunction):
        if name.startswith("_") or name in mentioned or name in ("freeze", "copy", "dual"):
            continue
        for a in GENERIC_ARGS:
            ops.append(f"H.{name}{a}")
    return [o for o in ops if not o.startswith("become(")]  # a harness device, not a library call


_REPRESENTATIVE = ("H.add_node", "H.add_nodes_from", "H.add_edge", "H.add_edges_from", "H.add_simplex", "H.add_simplices_from",
                   "H.remove_node", "H.remove_edge", "H.remove_simplex_id", "H.clear", "H.update", "H.add_node_to_edge",
                   "H.cleanup", "H.merge_duplicate_edges")


def _liberr(o):
    import xgi

    return o.raised and isinstance(o.exc_obj, xgi.exception.XGIError)


def inv_frozen(ctx):
    import warnings

    with warnings.catch_warnings():
        warnings.simplefilter("ignore")
        return _inv_frozen(ctx)


def _inv_frozen(ctx):
    import xgi

    out = []
    spec = ctx.spec
    hist = ctx.history if ctx.op is None else ctx.history + (ctx.op,)
    op0 = ctx.op or ctx.history[-1]
    cls = type(ctx.obj).__name__

    def bad(mon, msg, how, op=None):
        if len(out) < 6:
            out.append((mon, msg, {"how": how, "method": (op or op0).split("(", 1)[0], "cls": cls}))

    makers = [("freeze", lambda H: (H.freeze(), H)[1], True)]
    if cls != "DiHypergraph":
        makers.append(("subhypergraph", lambda H: xgi.subhypergraph(H), True))
        makers.append(("subhypergraph(nodes)", lambda H: xgi.subhypergraph(H, nodes=list(H.nodes)[:2]), True))
        # the whole selection grid of subhypergraph (node selections x edge selections x keep_isolates), probed with one
        # representative call per structural mutator: every selection - also one that induces nothing - returns a
        # frozen network
        nsel = {"None": lambda H: None, "all": lambda H: list(H.nodes), "first": lambda H: list(H.nodes)[:1],
                "last2": lambda H: list(H.nodes)[-2:], "[]": lambda H: [], "unknown": lambda H: ["zz"]}
        esel = {"None": lambda H: None, "[]": lambda H: [], "first": lambda H: list(H.edges)[:1], "unknown": lambda H: ["zz"]}
        for (nn, nf), (en, ef), ki in itertools.product(nsel.items(), esel.items(), (True, False)):
            if (nn, en, ki) in (("None", "None", True),):
                continue
            makers.append((f"subhypergraph(nodes={nn}, edges={en}, keep_isolates={ki})",
                           lambda H, nf=nf, ef=ef, ki=ki: xgi.subhypergraph(H, nodes=nf(H), edges=ef(H), keep_isolates=ki), False))
    try:
        base = spec.build(hist, ctx.ns)
        if base.is_frozen:
            bad("is-frozen", "is_frozen is True on a network that was never frozen", "plain")
        menu = menu_for(base)
    except Exception as e:  # noqa: BLE001
        return [("harness", f"could not prepare state: {type(e).__name__}: {e}", {"how": "prepare", "method": op0.split("(", 1)[0], "cls": cls})]
    short = []
    seen_m = set()
    for op in menu:
        m = op.split("(", 1)[0]
        if m in _REPRESENTATIVE and m not in seen_m:
            seen_m.add(m)
            short.append(op)
    for how, make, full in makers:
        try:
            Fz = make(spec.build(hist, ctx.ns))
        except Exception as e:  # noqa: BLE001
            bad("freeze-raises", f"{how} raised {type(e).__name__}: {e}", how)
            continue
        if Fz.is_frozen is not True:
            bad("is-frozen", f"is_frozen = {Fz.is_frozen!r} after {how}", how)
        fkey = _obs(Fz)
        fstate = C.state_key(Fz)
        try:
            twin = Fz.copy()
            tsnap = C.snapshot(twin)
        except Exception as e:  # noqa: BLE001
            bad("copy-of-frozen", f"copy() of a frozen network raised {type(e).__name__}: {e}", how)
            continue
        if twin.is_frozen:
            bad("copy-of-frozen", "copy() of a frozen network reports is_frozen", how)
        if not C.snap_equal(C.snapshot(Fz), tsnap, ordered=False):
            bad("copy-of-frozen", f"copy() of a frozen network differs: {C.snap_diff(C.snapshot(Fz), tsnap)}", how)
        tstruct = structure(twin)
        dirty = False
        for op in (menu if full else short):
            if dirty:
                twin = Fz.copy()
                dirty = False
            o = explore.apply_op(ctx.ns, twin, op)
            try:
                changed = structure(twin) != tstruct
            except Exception:  # noqa: BLE001 - corrupted twin: C01-C03's business
                dirty = True
                continue
            if not changed:
                if C.state_key(twin) != C.state_key(Fz) and not dirty:
                    dirty = True  # attribute-only change: rebuild the twin, nothing to demand of the frozen one
                continue
            dirty = True
            # structural mutation on the unfrozen twin: the frozen network must refuse it
            of = explore.apply_op(ctx.ns, Fz, op)
            k2 = _obs(Fz)
            if not _liberr(of):
                bad("frozen-accepts", f"`{op}` changes the structure of an unfrozen copy but on the frozen network ({how}) it "
                    f"{'raised ' + of.exc if of.raised else 'returned'} instead of raising XGIError", how, op)
            if k2 != fkey:
                bad("frozen-modified", f"`{op}` modified a frozen network ({how}): {C.snap_diff(fkey, k2) if k2 else 'unreadable'}", how, op)
                Fz = make(spec.build(hist, ctx.ns))
                fkey = _obs(Fz)
            elif Fz.is_frozen is not True:
                bad("is-frozen", f"is_frozen = {Fz.is_frozen!r} after the refused call `{op}`", how, op)
            elif C.state_key(Fz) != fstate:
                # the observable network is intact but some instance state moved (in practice the ID counter): harmless
                # if it only advanced; a copy must still be editable without touching what it copied
                why = _copy_stays_editable(Fz, cls)
                if why:
                    bad("copy-of-frozen", f"after the refused call `{op}` on the frozen network ({how}): {why}", how, op)
                    Fz = make(spec.build(hist, ctx.ns))
                    fkey = _obs(Fz)
                fstate = C.state_key(Fz)
    return out


def _copy_stays_editable(Fz, cls):
    """copy() of the frozen network, then automatic additions: every copied edge must survive unchanged."""
    try:
        c = Fz.copy()
        pre = C.snapshot(c)
        for k in range(len(pre["edges"]) + 2):
            if cls == "DiHypergraph":
                c.add_edge(([f"new{k}"], [f"new{k}b"]))
            elif cls == "SimplicialComplex":
                c.add_simplex([f"new{k}", f"new{k}b"])
            else:
                c.add_edge([f"new{k}", f"new{k}b"])
        post = C.snapshot(c)
    except Exception as e:  # noqa: BLE001
        return f"a copy could not be edited ({type(e).__name__}: {e})"
    for e in pre["edges"]:
        if post["members"].get(e) != pre["members"][e]:
            return (f"automatic additions to a copy overwrote the copied edge {e!r}: {pre['members'][e]} -> "
                    f"{post['members'].get(e)} (the refused call moved the automatic-ID counter backwards)")
    if len(post["edges"]) != len(pre["edges"]) + len(pre["edges"]) + 2:
        return f"{len(pre['edges']) + 2} automatic additions to a copy produced {len(post['edges']) - len(pre['edges'])} new edges"
    return ""


def _obs(H):
    """The observable network (ordered IDs, members, all attributes); the automatic-ID counter is not part of it."""
    try:
        return C.snapshot(H)
    except Exception:  # noqa: BLE001
        return None


def _kd(a, b):
    da, db = dict(a[1]), dict(b[1])
    return "; ".join(f"{k}: {str(da[k])[:120]} -> {str(db.get(k))[:120]}" for k in da if da[k] != db.get(k))[:400]


def _gen_alpha(ops):
    keep = ("H.add_node(", "H.add_edge(", "H.add_simplex(", "H.add_edges_from(", "H.add_simplices_from(", "H.remove_node(",
            "H.remove_edge(", "H.add_node_to_edge(", "H.clear_edges(", "H.remove_simplex_id(")
    return [o for o in ops if o.startswith(keep)]


def specs(tier):
    from checks import c02, c03

    q = tier == "quick"
    depth = 1 if q else 2
    return [
        explore.Spec("hypergraph-frozen", histcheck.SEEDS_H, _gen_alpha(A.hypergraph_static()), [], invariants=[inv_frozen],
                     depth=depth, dev_bound=0, namespace=_ns),
        explore.Spec("dihypergraph-frozen", c02.SEEDS, _gen_alpha(A.dihypergraph_static()), [], invariants=[inv_frozen],
                     depth=depth, dev_bound=0, namespace=_ns),
        explore.Spec("simplicialcomplex-frozen", c03.SEEDS, _gen_alpha(A.simplicial_static()), [], invariants=[inv_frozen],
                     depth=depth, dev_bound=0, namespace=_ns),
    ]


def run(tier, ev):
    import xgi

    ev.cov["rule"] = ("every canonical state reached by a structural alphabet (depth 1 quick / 2 thorough from 6+4+4 initial "
                      "states), frozen by freeze() and - for hypergraphs and complexes - obtained from subhypergraph() under its whole "
                      "selection grid (6 node selections x 4 edge selections x keep_isolates, probed with one representative call "
                      "per structural mutator; the default and a two-node selection with the full menu); at each, "
                      "every call of the menu (all public methods by introspection with the C01-C03 argument menus + generic "
                      "argument tuples for methods the menus do not mention + in-place library functions) is probed on an "
                      "unfrozen copy; calls that change structure there must raise XGIError on the frozen network and leave its "
                      "complete instance state unchanged; is_frozen before/after; copy() of a frozen network is equal and "
                      "unfrozen")
    v = histcheck.run_specs(PROP, "c18", specs(tier), ev)
    meths = {}
    for cls in (xgi.Hypergraph, xgi.DiHypergraph, xgi.SimplicialComplex):
        meths[cls.__name__] = [n for n, _ in inspect.getmembers(cls, predicate=inspect.isfunction) if not n.startswith("_")]
    ev.cov["public_methods"] = meths
    ev.sample({"history": ["xgi.Hypergraph([[1, 2], [1, 2], [3]])", "H.add_edge([1, 2, 3])"], "frozen_by": ["freeze", "subhypergraph"],
               "probed_call": "H.double_edge_swap(1, 3, 0, 2)"})
    ev.assumptions += ["a call is a structural mutator at a state iff it changes nodes, edges or memberships of an unfrozen copy "
                       "of that state"]
    return v


def replay(case):
    for s in specs("thorough"):
        if s.name == case["spec"]:
            hist = tuple(case["history"])
            ctx = explore.Ctx()
            ns = s.ns()
            ctx.spec, ctx.ns = s, ns
            if len(hist) == 1:
                ctx.history, ctx.op = hist, None
            else:
                ctx.history, ctx.op = hist[:-1], hist[-1]
            ctx.obj = s.build(hist, ns)
            return [f"{m}: {msg}" for m, msg, _ in inv_frozen(ctx) if m == case.get("monitor")]
    return []
