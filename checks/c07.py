"""C07 Copies, pickles and network-to-network constructors are equal and independent (DESIGN.md 5 C07; E1,
differential).  Every reachable state s is an input; twins: s.copy(), pickle round trip, type(s)(s)."""
import copy
import pickle

from xmc import alphabets as A
from xmc import canon as C
from xmc import explore, histcheck

PROP = "C07"

NESTED_H = [
    "H.add_node(2, pos=(0.5, [1, 2]), label='A')",
    "H.add_edge([1, 3], t=(1, {'k': [2]}), s={'x', 'y'})",
    "H.add_node(1, tags=['a'])",
    "H.add_edge([1, 2], meta={'k': [1]})",
    "H.add_edges_from([([2, 3], 4, {'l': [1, {'z': 2}]})])",
    "H.__setitem__('info', {'a': [1]})",
    "H.set_edge_attributes({0: {'l': [1, 2]}})",
]
NESTED_D = [
    "H.add_node(2, pos=(0.5, [1, 2]), label='A')",
    "H.add_edge(([1], [3]), t=(1, {'k': [2]}), s={'x', 'y'})",
    "H.add_node(1, tags=['a'])",
    "H.add_edge(([1], [2]), meta={'k': [1]})",
    "H.add_edges_from([(([2], [3]), 4, {'l': [1, {'z': 2}]})])",
    "H.__setitem__('info', {'a': [1]})",
    "H.set_edge_attributes({0: {'l': [1, 2]}})",
]
NESTED_S = [
    "H.add_node(2, pos=(0.5, [1, 2]), label='A')",
    "H.add_simplex([1, 3], t=(1, {'k': [2]}), s={'x', 'y'})",
    "H.add_node(1, tags=['a'])",
    "H.add_simplex([1, 2], meta={'k': [1]})",
    "H.add_simplices_from([([2, 3, 4], 4, {'l': [1, {'z': 2}]})])",
    "H.__setitem__('info', {'a': [1]})",
    "H.set_edge_attributes({0: {'l': [1, 2]}})",
]

# edits applied to one side (the other side must not change)
EDITS = {
    "Hypergraph": [
        "H.add_node(7)", "H.add_edge([1, 7])", "H.add_edge([2, 3], idx=9)", "H.add_edges_from([[1, 2], [3]])",
        "H.add_node_to_edge(0, 3)", "H.add_node_to_edge(8, 1)", "H.remove_node(1)", "H.remove_node(2, strong=True)",
        "H.remove_node(3, remove_empty=False)", "H.remove_edge(0)", "H.remove_edges_from([1])",
        "H.remove_node_from_edge(0, 1)", "H.remove_node_from_edge(0, 2, remove_empty=False)", "H.clear_edges()",
        "H.clear()", "H.merge_duplicate_edges()", "H.merge_duplicate_edges(rename='new', merge_rule='union')",
        "H.cleanup()", "xgi.convert_labels_to_integers(H, in_place=True)", "H.update(edges=[[1, 5]], nodes=[6])",
    ],
    "DiHypergraph": [
        "H.add_node(7)", "H.add_edge(([1], [7]))", "H.add_edge(([2], [3]), idx=9)", "H.add_edges_from([([1], [2]), ([3], [])])",
        "H.add_node_to_edge(0, 3, 'in')", "H.add_node_to_edge(0, 3, 'out')", "H.add_node_to_edge(8, 1, 'in')",
        "H.remove_node(1)", "H.remove_node(2, strong=True)", "H.remove_node(3, remove_empty=False)", "H.remove_edge(0)",
        "H.remove_edges_from([1])", "H.remove_node_from_edge(0, 1, 'in')", "H.remove_node_from_edge(0, 2, 'out')",
        "H.clear()", "H.cleanup()", "xgi.convert_labels_to_integers(H, in_place=True)",
    ],
    "SimplicialComplex": [
        "H.add_node(7)", "H.add_simplex([1, 7])", "H.add_simplex([2, 3, 7], idx=9)", "H.add_simplices_from([[1, 2, 5], [3]])",
        "H.remove_node(1)", "H.remove_node(3)", "H.remove_simplex_id(0)", "H.remove_simplex_ids_from([1])", "H.close()",
        "H.clear()", "H.cleanup()", "xgi.convert_labels_to_integers(H, in_place=True)",
    ],
}
ATTR_EDITS = ["H.set_node_attributes(5, name='x')", "H.set_edge_attributes(5, name='x')", "H.__setitem__('name', 'y')",
              "H.add_node(1, color='b')"]
# in-place changes of attribute values already present (the attribute records themselves stay the same objects)
NESTED_EDITS = ["[a.__setitem__('MUT', 1) for a in (H.nodes[n] for n in list(H.nodes)[:2])]",
                "[a.__setitem__('MUT', 1) for a in (H.edges[e] for e in list(H.edges)[:2])]",
                "[v.append('MUT') for n in H.nodes for v in H.nodes[n].values() if isinstance(v, list)]"]
AUTO_ADD = {"Hypergraph": "H.add_edge([1, 2])", "DiHypergraph": "H.add_edge(([1], [2]))",
            "SimplicialComplex": "H.add_simplex([1, 2, 3, 4, 5, 6])"}


def _twin(kind, obj):
    if kind == "copy":
        return obj.copy()
    if kind == "pickle":
        return pickle.loads(pickle.dumps(obj))
    return type(obj)(obj)


def _mutate_nested(obj):
    """Mutate in place every nested mutable value reachable from obj's node / edge / network attributes."""
    n = 0

    def walk(v, depth=0):
        nonlocal n
        if depth > 4:
            return
        if isinstance(v, list):
            for x in list(v):
                walk(x, depth + 1)
            v.append("MUT")
            n += 1
        elif isinstance(v, dict):
            for x in list(v.values()):
                walk(x, depth + 1)
            v["MUT"] = 1
            n += 1
        elif isinstance(v, set):
            v.add("MUT")
            n += 1
        elif isinstance(v, tuple):
            for x in v:
                walk(x, depth + 1)

    for i in list(obj.nodes):
        for v in list(obj.nodes[i].values()):
            walk(v)
    for i in list(obj.edges):
        for v in list(obj.edges[i].values()):
            walk(v)
    for v in list(obj._net_attr.values()):
        walk(v)
    return n


def inv_twins(ctx):
    out = []
    op = ctx.op or ctx.history[-1]
    tags = {"method": op.split("(", 1)[0]}
    spec = ctx.spec
    hist = ctx.history if ctx.op is None else ctx.history + (ctx.op,)
    cls = type(ctx.obj).__name__

    def bad(mon, msg, kind):
        if len(out) < 8:
            t = dict(tags)
            t["twin"] = kind
            out.append((mon, msg, t))

    src = ctx.obj
    try:
        src_key = C.state_key(src)
        src_snap = C.snapshot(src)
    except Exception:  # noqa: BLE001 - corrupted state: C01-C03's business
        return out
    frozen = getattr(src, "frozen", False) is True
    for kind in ("copy", "pickle", "ctor"):
        try:
            tw = _twin(kind, src)
        except Exception as e:  # noqa: BLE001
            bad("twin-raises", f"creating the {kind} twin raised {type(e).__name__}: {e}", kind)
            continue
        try:
            ts = C.snapshot(tw)
        except Exception as e:  # noqa: BLE001
            bad("twin-raises", f"observing the {kind} twin raised {type(e).__name__}: {e}", kind)
            continue
        if C.state_key(src) != src_key:
            bad("twin-mutates-source", f"creating the {kind} twin changed the source", kind)
            src = spec.build(hist, ctx.ns)
        if not C.snap_equal(src_snap, ts, ordered=False):
            bad("twin-differs", f"{kind} twin differs from its source: {C.snap_diff(src_snap, ts)}", kind)
            continue
        if frozen:
            continue
        edits = EDITS[cls] + (ATTR_EDITS if kind == "copy" else [])
        # direction A: edit the twin, the source must not change (source reused while intact)
        for e in edits + [AUTO_ADD[cls]]:
            tw = _twin(kind, src)
            pre_tw = C.snapshot(tw)
            explore.apply_op(ctx.ns, tw, e)
            if C.state_key(src) != src_key:
                bad("edit-leaks", f"after `{e}` on the {kind} twin the source changed: "
                    f"{C.snap_diff(src_snap, _safe_snap(src))}", kind)
                src = spec.build(hist, ctx.ns)
            if e == AUTO_ADD[cls]:
                _fresh(bad, kind, "twin", e, pre_tw, tw)
        # direction B: edit the source, the twin must not change
        light = spec.name.endswith("-deep")
        for e in (edits[::3] + [AUTO_ADD[cls]]) if light else (edits[::3] + ATTR_EDITS + NESTED_EDITS + [AUTO_ADD[cls]]):
            s2 = spec.build(hist, ctx.ns)
            tw = _twin(kind, s2)
            tk = C.state_key(tw)
            pre_s = C.snapshot(s2)
            explore.apply_op(ctx.ns, s2, e)
            attr_edit = e in ATTR_EDITS or e in NESTED_EDITS
            # independence of attribute records / nested values is promised for copy() only; for the other twins an
            # attribute edit is made just to see that a *second* twin reflects it
            if C.state_key(tw) != tk and (kind == "copy" or not attr_edit):
                bad("edit-leaks", f"after `{e}` on the source its {kind} twin changed: "
                    f"{C.snap_diff(ts, _safe_snap(tw))}", kind)
            if e == AUTO_ADD[cls]:
                _fresh(bad, kind, "source", e, pre_s, s2)
            # a second twin of the same, now edited, object: equal to what the object is now (nothing remembered from the
            # first twin may be served again)
            try:
                if light:
                    continue
                now = C.snapshot(s2)
                tw2 = _twin(kind, s2)
                t2 = C.snapshot(tw2)
                if not C.snap_equal(now, t2, ordered=False):
                    bad("twin-differs", f"a second {kind} twin, made after `{e}` on the source, differs from the source: "
                        f"{C.snap_diff(now, t2)}", kind)
            except Exception:  # noqa: BLE001 - an edit that left the source unreadable is C01-C03's business
                pass
        if kind == "copy":
            # nested attribute values reached through copy() are independent, both ways
            tw = _twin(kind, src)
            k = _mutate_nested(tw)
            if C.state_key(src) != src_key:
                bad("nested-leaks", f"mutating {k} nested attribute value(s) of the copy changed the source: "
                    f"{C.snap_diff(src_snap, _safe_snap(src))}", kind)
                src = spec.build(hist, ctx.ns)
            s2 = spec.build(hist, ctx.ns)
            tw = _twin(kind, s2)
            tk = C.state_key(tw)
            _mutate_nested(s2)
            if C.state_key(tw) != tk:
                bad("nested-leaks", "mutating nested attribute values of the source changed its copy", kind)
    return out


def _safe_snap(o):
    try:
        return C.snapshot(o)
    except Exception:  # noqa: BLE001
        return {"cls": "?", "nodes": "?", "edges": "?", "members": "?", "nattr": "?", "eattr": "?", "net": "?"}


def _fresh(bad, kind, side, e, pre, obj):
    try:
        post = C.snapshot(obj)
    except Exception as ex:  # noqa: BLE001
        bad("fresh-id", f"`{e}` on the {side} of a {kind} pair left an unreadable network ({type(ex).__name__})", kind)
        return
    for i in pre["edges"]:
        if i not in post["members"] or post["members"][i] != pre["members"][i] or post["eattr"][i] != pre["eattr"][i]:
            bad("fresh-id", f"`{e}` on the {side} of a {kind} pair altered existing edge {i!r} (IDs before: {pre['edges']})", kind)
            return
    new = [i for i in post["edges"] if i not in pre["members"]]
    if not new:
        bad("fresh-id", f"`{e}` on the {side} of a {kind} pair added nothing (IDs before: {pre['edges']})", kind)


def _gen_alpha(static, nested, drop=("H.cleanup", "xgi.", "H.merge_duplicate_edges(rename='tuple'",
                                      "H.merge_duplicate_edges(rename='new', merge_rule='i",
                                      "H.merge_duplicate_edges(rename='first', merge_rule='i")):
    return [o for o in static if not o.startswith(drop)] + nested


def specs(tier):
    q = tier == "quick"
    sp = _specs("quick" if q else "thorough-wide")
    if not q:
        # one level deeper with the first-generation oracle only (twin equal, edits do not leak, fresh IDs); the second
        # twin after each source edit stays at depth 2, where it is exhaustive over all initial states
        deep = _specs("thorough")[:3]
        for d in deep:
            d.name += "-deep"
            d.inits = d.inits[:2]  # the empty network and one populated network per class
        sp += deep
    return sp


def _specs(tier):
    from checks import c02, c03

    q = tier == "quick"
    depth = 3 if tier == "thorough" else 2
    seeds_h = histcheck.SEEDS_H[:4] if q else histcheck.SEEDS_H
    return [
        explore.Spec("hypergraph-twins", seeds_h, _gen_alpha(A.hypergraph_static(), NESTED_H),
                     [A.gen_member_removals] if not q else [], invariants=[inv_twins], depth=depth, dev_bound=0,
                     namespace=histcheck.base_namespace),
        explore.Spec("dihypergraph-twins", c02.SEEDS[:3] if q else c02.SEEDS, _gen_alpha(A.dihypergraph_static(), NESTED_D),
                     [], invariants=[inv_twins], depth=depth, dev_bound=0, namespace=histcheck.base_namespace),
        explore.Spec("simplicialcomplex-twins", c03.SEEDS[:3] if q else c03.SEEDS,
                     _gen_alpha(A.simplicial_static(), NESTED_S)[::2 if q else 1],
                     [A.gen_simplex_removals] if not q else [], invariants=[inv_twins], depth=depth, dev_bound=0,
                     namespace=histcheck.base_namespace),
        # states whose labels / IDs have other types (tuple, string, float; tuple, string, numpy integer, frozenset, bytes)
        explore.Spec("hypergraph-twins-exotic-labels", ["xgi.Hypergraph()", "xgi.Hypergraph({ET: [TA, SB], 0: [SB, FC], ES: [FC]})"],
                     _gen_alpha(A.hypergraph_exotic(), []), [], invariants=[inv_twins], depth=1 if q else 2, dev_bound=0,
                     namespace=histcheck.base_namespace),
        explore.Spec("dihypergraph-twins-exotic-labels", ["xgi.DiHypergraph()", "xgi.DiHypergraph({ET: ([TA], [SB]), 0: ([SB, FC], [TA])})"],
                     _gen_alpha(A.dihypergraph_exotic(), []), [], invariants=[inv_twins], depth=1 if q else 2, dev_bound=0,
                     namespace=histcheck.base_namespace),
        explore.Spec("simplicialcomplex-twins-exotic-labels", ["xgi.SimplicialComplex()", "xgi.SimplicialComplex({ET: [TA, SB], 5: [SB, FC]})"],
                     _gen_alpha(A.simplicial_exotic(), []), [], invariants=[inv_twins], depth=1 if q else 2, dev_bound=0,
                     namespace=histcheck.base_namespace),
    ]


def run(tier, ev):
    ev.cov["rule"] = ("every canonical state reached by BFS over attributed alphabets (nested list/dict attribute values, "
                      "non-monotone explicit IDs, empty edges, isolated nodes) is an input; twins copy() / pickle round "
                      "trip / constructor; oracle: twin equals source; every edit from a menu applied to either side "
                      "leaves the other side's complete instance state unchanged; nested attribute values reached "
                      "through copy() are independent; both sides keep assigning fresh edge IDs")
    ev.assumptions += ["constructor and pickle twins are judged on structural edits only (the statement promises nested "
                       "independence for copy() alone)"]
    v = histcheck.run_specs(PROP, "c07", specs(tier), ev)
    ev.cov["edit_menu_sizes"] = {k: len(x) for k, x in EDITS.items()}
    ev.sample({"history": ["xgi.Hypergraph()", "H.add_edge([1, 2], meta={'k': [1]})"], "twins": ["copy", "pickle", "ctor"]})
    return v


def replay(case):
    for s in specs("thorough"):
        if s.name == case["spec"]:
            return histcheck.replay_history(s, case)
    return []
