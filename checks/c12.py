"""C12 Matrix representations encode the network exactly (DESIGN.md 5 C12; E2 x option grid).

Every matrix function is compared, entry by entry through the returned index maps, with a brute-force construction
from members(); sparse == dense; index=False == index=True; Laplacians: zero row sums, symmetric, PSD."""
import itertools
import math
import warnings

import numpy as np

from xmc import env, explore, families as F
from xmc.evidence import Violation

PROP = "C12"
TOL = 1e-9


def dense(M):
    if hasattr(M, "toarray"):
        M = M.toarray()
    return np.asarray(M, dtype=float)


def psd(L):
    if L.size == 0:
        return True, 0.0
    w = np.linalg.eigvalsh((L + L.T) / 2)
    lo = float(w.min())
    return lo >= -1e-9 * max(1.0, float(np.abs(L).max())), lo


class Ck:
    def __init__(self):
        self.out = []
        self.n = 0

    def bad(self, mon, msg, **tags):
        if len(self.out) < 6:
            self.out.append((mon, msg, tags))


def _bij(ck, label, d, ids):
    """index map d: position -> id must be a bijection onto ids (or empty, see DESIGN 5 C12)."""
    if sorted(d.keys()) != list(range(len(d))) or sorted(map(repr, d.values())) != sorted(map(repr, ids)):
        ck.bad("index-map", f"{label}: index map {d} is not a bijection onto {list(ids)}")
        return False
    return True


def check_network(H, wkind):
    import xgi

    ck = Ck()
    nodes = list(H.nodes)
    edges = list(H.edges)
    mem = {e: set(m) for e, m in H.edges.members(dtype=dict).items()}
    n = len(nodes)

    def shared(u, v, order=None):
        return sum(1 for e in edges if u in mem[e] and v in mem[e] and (order is None or len(mem[e]) == order + 1))

    def deg(u, order=None):
        return sum(1 for e in edges if u in mem[e] and (order is None or len(mem[e]) == order + 1))

    for order in (None, 0, 1, 2, 3):
        eo = [e for e in edges if order is None or len(mem[e]) == order + 1]
        # ---- incidence
        mats = {}
        for sparse in (True, False):
            ck.n += 1
            I, rd, cd = xgi.incidence_matrix(H, order=order, sparse=sparse, index=True)
            I0 = xgi.incidence_matrix(H, order=order, sparse=sparse)
            D = dense(I)
            if not np.array_equal(D, dense(I0)):
                ck.bad("index-flag", f"incidence_matrix(order={order}, sparse={sparse}) differs between index=True/False")
            mats[sparse] = D
            if not eo or not nodes:
                if D.size != 0 and D.any():
                    ck.bad("incidence", f"incidence_matrix(order={order}) non-zero without edges of that order")
                continue
            if D.shape != (n, len(eo)) or not _bij(ck, "incidence rows", rd, nodes) or not _bij(ck, "incidence cols", cd, eo):
                ck.bad("incidence", f"incidence_matrix(order={order}, sparse={sparse}) shape {D.shape}, expected {(n, len(eo))}")
                continue
            for i in range(n):
                for j in range(len(eo)):
                    want = 1 if rd[i] in mem[cd[j]] else 0
                    if D[i, j] != want:
                        ck.bad("incidence", f"incidence_matrix(order={order}, sparse={sparse})[{rd[i]!r},{cd[j]!r}] = {D[i, j]}, "
                               f"expected {want}; members {mem}")
        if mats[True].shape != mats[False].shape or not np.array_equal(mats[True], mats[False]):
            ck.bad("sparse-dense", f"incidence_matrix(order={order}) sparse != dense")
        # ---- adjacency / clique motif
        for s, weighted in itertools.product((1, 2, 3), (False, True)):
            pair = {}
            for sparse in (True, False):
                ck.n += 1
                A, rd = xgi.adjacency_matrix(H, order=order, sparse=sparse, s=s, weighted=weighted, index=True)
                A0 = xgi.adjacency_matrix(H, order=order, sparse=sparse, s=s, weighted=weighted)
                D = dense(A)
                pair[sparse] = D
                lab = f"adjacency_matrix(order={order}, s={s}, weighted={weighted}, sparse={sparse})"
                if D.shape != dense(A0).shape or not np.array_equal(D, dense(A0)):
                    ck.bad("index-flag", f"{lab} differs between index=True/False")
                if not rd:
                    if D.size and (D.any() or D.shape != (n, n)):
                        ck.bad("adjacency", f"{lab}: empty index map with matrix {D.tolist()}")
                    if eo and nodes:
                        ck.bad("adjacency", f"{lab}: empty index map although edges of that order exist")
                    continue
                if D.shape != (n, n) or not _bij(ck, "adjacency rows", rd, nodes):
                    ck.bad("adjacency", f"{lab} shape {D.shape}, expected {(n, n)}")
                    continue
                if not np.array_equal(D, D.T) or np.diag(D).any():
                    ck.bad("adjacency", f"{lab} not symmetric with zero diagonal: {D.tolist()}")
                for i in range(n):
                    for j in range(n):
                        if i == j:
                            continue
                        c = shared(rd[i], rd[j], order)
                        want = (c if weighted else 1) if c >= s else 0
                        if D[i, j] != want:
                            ck.bad("adjacency", f"{lab}[{rd[i]!r},{rd[j]!r}] = {D[i, j]}, expected {want}; members {mem}")
            if pair[True].shape != pair[False].shape or not np.array_equal(pair[True], pair[False]):
                ck.bad("sparse-dense", f"adjacency_matrix(order={order}, s={s}, weighted={weighted}) sparse != dense")
        # ---- degree vector
        ck.n += 1
        K, rd = xgi.degree_matrix(H, order=order, index=True)
        K0 = xgi.degree_matrix(H, order=order)
        K = np.asarray(K, dtype=float).ravel()
        if not np.array_equal(K, np.asarray(K0, dtype=float).ravel()):
            ck.bad("index-flag", f"degree_matrix(order={order}) differs between index=True/False")
        if rd:
            if len(K) != n or not _bij(ck, "degree rows", rd, nodes):
                ck.bad("degree", f"degree_matrix(order={order}) has length {len(K)}")
            else:
                for i in range(n):
                    if K[i] != deg(rd[i], order):
                        ck.bad("degree", f"degree_matrix(order={order})[{rd[i]!r}] = {K[i]}, expected {deg(rd[i], order)}")
        elif K.any() or (eo and nodes):
            ck.bad("degree", f"degree_matrix(order={order}) = {K.tolist()} with an empty index map")
        # ---- intersection profile
        pair = {}
        for sparse in (True, False):
            ck.n += 1
            P, cd = xgi.intersection_profile(H, order=order, sparse=sparse, index=True)
            P0 = xgi.intersection_profile(H, order=order, sparse=sparse)
            D = dense(P)
            pair[sparse] = D
            if D.shape != dense(P0).shape or not np.array_equal(D, dense(P0)):
                ck.bad("index-flag", f"intersection_profile(order={order}, sparse={sparse}) differs between index=True/False")
            if not cd:
                if D.size and D.any():
                    ck.bad("intersection-profile", f"intersection_profile(order={order}) non-zero with empty index map")
                if eo and nodes:
                    ck.bad("intersection-profile", f"intersection_profile(order={order}): empty index map although edges exist")
                continue
            if D.shape != (len(eo), len(eo)) or not _bij(ck, "profile cols", cd, eo):
                ck.bad("intersection-profile", f"intersection_profile(order={order}) shape {D.shape}")
                continue
            for i in range(len(eo)):
                for j in range(len(eo)):
                    want = len(mem[cd[i]] & mem[cd[j]])
                    if D[i, j] != want:
                        ck.bad("intersection-profile", f"intersection_profile(order={order})[{cd[i]!r},{cd[j]!r}] = {D[i, j]}, "
                               f"expected {want}")
        if pair[True].shape != pair[False].shape or not np.array_equal(pair[True], pair[False]):
            ck.bad("sparse-dense", f"intersection_profile(order={order}) sparse != dense")
        # ---- order-d Laplacian
        if order is not None and order >= 1:
            for rescale in (False, True):
                pair = {}
                for sparse in (False, True):
                    ck.n += 1
                    L, rd = xgi.laplacian(H, order=order, sparse=sparse, rescale_per_node=rescale, index=True)
                    L0 = xgi.laplacian(H, order=order, sparse=sparse, rescale_per_node=rescale)
                    D = dense(L)
                    pair[sparse] = D
                    lab = f"laplacian(order={order}, sparse={sparse}, rescale_per_node={rescale})"
                    if D.shape != dense(L0).shape or not np.allclose(D, dense(L0), atol=TOL):
                        ck.bad("index-flag", f"{lab} differs between index=True/False")
                    if not rd:
                        if D.size and (np.abs(D) > TOL).any():
                            ck.bad("laplacian", f"{lab}: empty index map with non-zero matrix")
                        if eo and nodes:
                            ck.bad("laplacian", f"{lab}: empty index map although edges of that order exist")
                        continue
                    if D.shape != (n, n) or not _bij(ck, "laplacian rows", rd, nodes):
                        ck.bad("laplacian", f"{lab} shape {D.shape}")
                        continue
                    f = (1.0 / order) if rescale else 1.0
                    for i in range(n):
                        for j in range(n):
                            want = f * (order * deg(rd[i], order) if i == j else -shared(rd[i], rd[j], order))
                            if abs(D[i, j] - want) > TOL:
                                ck.bad("laplacian", f"{lab}[{rd[i]!r},{rd[j]!r}] = {D[i, j]}, expected {want}")
                    if np.abs(D.sum(axis=1)).max() > TOL or not np.allclose(D, D.T, atol=TOL):
                        ck.bad("laplacian-structure", f"{lab}: row sums {D.sum(axis=1).tolist()} / symmetry")
                    ok, lo = psd(D)
                    if not ok:
                        ck.bad("laplacian-psd", f"{lab} has eigenvalue {lo}")
                if pair[True].shape != pair[False].shape or not np.allclose(pair[True], pair[False], atol=TOL):
                    ck.bad("sparse-dense", f"laplacian(order={order}, rescale={rescale}) sparse != dense")
        # ---- adjacency tensor
        if order in (1, 2) and n <= 4:
            for normalized in (True, False):
                ck.n += 1
                B, rd = xgi.adjacency_tensor(H, order, normalized=normalized, index=True)
                B0 = xgi.adjacency_tensor(H, order, normalized=normalized)
                B = np.asarray(B, dtype=float)
                lab = f"adjacency_tensor(order={order}, normalized={normalized})"
                if B.shape != np.asarray(B0).shape or not np.allclose(B, np.asarray(B0, dtype=float)):
                    ck.bad("index-flag", f"{lab} differs between index=True/False")
                if not rd:
                    if B.size and B.any():
                        ck.bad("tensor", f"{lab}: empty index map with non-zero tensor")
                    if eo and nodes:
                        ck.bad("tensor", f"{lab}: empty index map although edges of that order exist")
                    continue
                if B.shape != (n,) * (order + 1) or not _bij(ck, "tensor rows", rd, nodes):
                    ck.bad("tensor", f"{lab} shape {B.shape}")
                    continue
                val = 1.0 / math.factorial(order) if normalized else 1.0
                sets = {frozenset(mem[e]) for e in eo}
                for idx in itertools.product(range(n), repeat=order + 1):
                    labs = [rd[i] for i in idx]
                    want = val if len(set(labs)) == order + 1 and frozenset(labs) in sets else 0.0
                    if abs(B[idx] - want) > TOL:
                        ck.bad("tensor", f"{lab}[{labs}] = {B[idx]}, expected {want}")
    # ---- clique motif matrix
    for sparse in (True, False):
        ck.n += 1
        W, rd = xgi.clique_motif_matrix(H, sparse=sparse, index=True)
        D = dense(W)
        if rd and D.shape == (n, n) and _bij(ck, "motif rows", rd, nodes):
            for i in range(n):
                for j in range(n):
                    want = 0 if i == j else shared(rd[i], rd[j])
                    if D[i, j] != want:
                        ck.bad("clique-motif", f"clique_motif_matrix(sparse={sparse})[{rd[i]!r},{rd[j]!r}] = {D[i, j]}, expected {want}")
        elif rd or (edges and nodes):
            ck.bad("clique-motif", f"clique_motif_matrix(sparse={sparse}) shape {D.shape} / index map {rd}")
    # ---- multi-order Laplacian
    for orders, weights in (([1], [1]), ([1, 2], [1, 0.5]), ([2, 1], [0.3, 0]), ([3], [1])):
        for rescale in (False, True):
            pair = {}
            for sparse in (False, True):
                ck.n += 1
                with warnings.catch_warnings():
                    warnings.simplefilter("ignore")
                    L, rd = xgi.multiorder_laplacian(H, orders, weights, sparse=sparse, rescale_per_node=rescale, index=True)
                D = dense(L)
                pair[sparse] = D
                lab = f"multiorder_laplacian({orders}, {weights}, sparse={sparse}, rescale_per_node={rescale})"
                if D.shape != (n, n):
                    if n:
                        ck.bad("multiorder", f"{lab} shape {D.shape}")
                    continue
                if not _bij(ck, "multiorder rows", rd, nodes):
                    continue
                want = np.zeros((n, n))
                for d, w in zip(orders, weights):
                    Kd = [deg(rd[i], d) for i in range(n)]
                    if not any(Kd):
                        continue
                    f = (1.0 / d) if rescale else 1.0
                    Ld = np.array([[f * (d * Kd[i] if i == j else -shared(rd[i], rd[j], d)) for j in range(n)] for i in range(n)])
                    want += w * Ld / (sum(Kd) / n)
                if not np.allclose(D, want, atol=1e-9):
                    ck.bad("multiorder", f"{lab} = {D.tolist()}, expected {want.tolist()}")
                if n and (np.abs(D.sum(axis=1)).max() > 1e-9 or not np.allclose(D, D.T, atol=1e-9)):
                    ck.bad("laplacian-structure", f"{lab}: row sums / symmetry")
                ok, lo = psd(D)
                if not ok:
                    ck.bad("laplacian-psd", f"{lab} has eigenvalue {lo}")
            if pair[True].shape != pair[False].shape or not np.allclose(pair[True], pair[False], atol=TOL):
                ck.bad("sparse-dense", f"multiorder_laplacian({orders}, {weights}, rescale={rescale}) sparse != dense")
    # ---- normalised Laplacian (Zhou et al.)
    isolated = any(deg(u) == 0 for u in nodes)
    has_empty = any(len(mem[e]) == 0 for e in edges)
    if nodes and edges and not isolated and not has_empty:
        wts = {e: H.edges[e].get("weight", 1) for e in edges}
        for weighted in (False, True):
            nonunit = weighted and any(w != 1 for w in wts.values())
            tags = {"function": "normalized_hypergraph_laplacian", "weighted": weighted, "nonunit_weights": nonunit}
            pair = {}
            for sparse in (True, False):
                ck.n += 1
                L, rd = xgi.normalized_hypergraph_laplacian(H, weighted=weighted, sparse=sparse, index=True)
                D = dense(L)
                pair[sparse] = D
                lab = f"normalized_hypergraph_laplacian(weighted={weighted}, sparse={sparse})"
                if D.shape != (n, n) or not _bij(ck, "normalized rows", rd, nodes):
                    ck.bad("normalized-shape", f"{lab} shape {D.shape}")
                    continue
                if not np.allclose(D, D.T, atol=1e-9):
                    ck.bad("normalized-symmetry", f"{lab} is not symmetric")
                w = {e: (wts[e] if weighted else 1) for e in edges}
                if nonunit:
                    # Inside the scope of known finding D13 the textbook comparison below is suppressed; so that any *other*
                    # deviation is still reported there, the output is also compared with the formula the library
                    # implements and its maintainers pin (test_fix_647): the same expression with unweighted d(v).
                    du = {u: sum(1 for e in edges if u in mem[e]) for u in nodes}
                    impl = np.zeros((n, n))
                    for i in range(n):
                        for j in range(n):
                            u, v = rd[i], rd[j]
                            acc = sum(w[e] / len(mem[e]) for e in edges if u in mem[e] and v in mem[e])
                            impl[i, j] = (1.0 if i == j else 0.0) - acc / math.sqrt(du[u] * du[v])
                    if not np.allclose(D, impl, atol=1e-9):
                        ck.bad("normalized-as-implemented", f"{lab} differs even from the implemented variant I - Du^-1/2 H W De^-1 "
                               f"H^T Du^-1/2 (unweighted d(v), see known finding D13): got {np.round(D, 4).tolist()}, expected "
                               f"{np.round(impl, 4).tolist()}; weights {wts}", function="normalized_hypergraph_laplacian",
                               weighted=True, nonunit_weights="beyond D13")
                dv = {u: sum(w[e] for e in edges if u in mem[e]) for u in nodes}
                if any(x <= 0 for x in dv.values()):
                    continue  # a vertex of zero weighted degree: the textbook expression is undefined
                want = np.zeros((n, n))
                for i in range(n):
                    for j in range(n):
                        u, v = rd[i], rd[j]
                        acc = sum(w[e] / len(mem[e]) for e in edges if u in mem[e] and v in mem[e])
                        want[i, j] = (1.0 if i == j else 0.0) - acc / math.sqrt(dv[u] * dv[v])
                if not np.allclose(D, want, atol=1e-9):
                    ck.bad("normalized-formula", f"{lab} differs from I - Dv^-1/2 H W De^-1 H^T Dv^-1/2 with d(v) = sum_e "
                           f"w(e) h(v, e): got {np.round(D, 4).tolist()}, expected {np.round(want, 4).tolist()}; weights {wts}", **tags)
                ok, lo = psd(D)
                if not ok:
                    ck.bad("normalized-psd", f"{lab} has eigenvalue {lo}; weights {wts}", **tags)
                k = D @ np.array([math.sqrt(dv[rd[i]]) for i in range(n)])
                if np.abs(k).max() > 1e-8:
                    ck.bad("normalized-kernel", f"{lab}: sqrt(d) is not in the kernel (residual {np.abs(k).max()})", **tags)
            if len(pair) == 2 and (pair[True].shape != pair[False].shape or not np.allclose(pair[True], pair[False], atol=1e-9)):
                ck.bad("sparse-dense", f"normalized_hypergraph_laplacian(weighted={weighted}) sparse != dense")
    return ck


WEIGHTS = {"absent": None, "ones": lambda i: 1, "fraction": lambda i: [0.5, 1, 0.25][i % 3], "large": lambda i: [4, 1, 2.5][i % 3],
           "zeros": lambda i: [0, 2, 0.0, 1][i % 4], "numpy": lambda i: [np.float64(0.5), np.int64(2), np.float32(1.5)][i % 3]}


def _work(item):
    spec, wkind = item
    with warnings.catch_warnings():
        warnings.simplefilter("ignore")
        try:
            H = F.build(spec)
            ck = check_network(H, wkind)
            # same object again after an in-place detour (first node / first edge removed and re-inserted): results must
            # come from the current structure, not from anything remembered about this object
            F.detour(H)
            F.morph(H)  # ... and then into a different network with the same node and edge counts
            F.rename(H)  # ... and one node replaced by a node with a new label (same counts, another node set)
            ck2 = check_network(H, wkind)
            F.grow(H)  # ... and then one more edge with a fresh ID
            ck3 = check_network(H, wkind)
            ck2.out += [(m, "(after a further edge was added) " + msg, t) for m, msg, t in ck3.out]
            ck2.n += ck3.n
            out = [(m, msg, t, spec) for m, msg, t in ck.out]
            out += [(m, "[second evaluation of the same object after remove+re-add of its first node and edge] " + msg, t, spec)
                    for m, msg, t in ck2.out]
            return {"n": ck.n + ck2.n, "viols": out}
        except RecursionError:
            raise
        except Exception as e:  # noqa: BLE001
            import traceback

            return {"n": 1, "viols": [("matrix-raises", f"{type(e).__name__}: {e} at "
                                       f"{traceback.format_exc().splitlines()[-3].strip()}", {}, spec)]}


def family(tier):
    q = tier == "quick"
    base = list(F.undirected([1, 2, 3], 3)) + list(F.undirected([1, 2, 3, 4], 2, min_edges=1))
    if not q:
        base = list(F.undirected([1, 2, 3, 4], 3)) + list(F.undirected([1, 2, 3, 4, 5], 2, min_edges=2))
    items = []
    for k, s in enumerate(base):
        m = len(s["edges"])
        items.append((s, "absent"))
        # non-positional labels: string nodes inserted in reverse, decreasing gapped edge IDs
        t = F.relabel(s, node_map={n: "v%d" % (9 - n) for n in s["nodes"]}, edge_ids=[10 * (m - i) for i in range(m)],
                      reverse_nodes=True)
        wk = ["ones", "fraction", "large", "zeros", "numpy"][k % 5]
        t["eattr"] = {i: {"weight": WEIGHTS[wk](i)} for i in range(m)}
        items.append((t, wk))
        if k % 5 == 0 and m:
            u = dict(s)
            u["eattr"] = {i: {"weight": WEIGHTS["large"](i)} for i in range(m)}
            items.append((u, "large"))
        if k % 7 == 0 and m:
            u = dict(s)
            u["eattr"] = {i: {"weight": WEIGHTS["zeros"](i)} for i in range(m)}
            items.append((u, "zeros"))
    for s in base[::9]:
        for _, nm in F.exotic_label_maps(s["nodes"]):
            items.append((F.relabel(s, node_map=nm), "absent"))
    for w in F.big():  # counts above 127 / 255
        items.append((w, "absent"))
    for w in F.wide():  # more than ten nodes and edges
        items.append((w, "absent"))
        w2 = dict(w)
        w2["eattr"] = {i: {"weight": WEIGHTS["fraction"](i)} for i in range(len(w["edges"]))}
        items.append((w2, "fraction"))
    items.append((F.with_empty_edge(F.H([[1, 2], [2, 3]])), "absent"))
    items.append((F.H([], nodes=[]), "absent"))
    return items


# the documented positional order of the options (transcribed from the docstrings): callers may pass them by position
DOC_ORDER = {
    "incidence_matrix": ["order", "sparse", "index"],
    "adjacency_matrix": ["order", "sparse", "s", "weighted", "index"],
    "intersection_profile": ["order", "sparse", "index"],
    "degree_matrix": ["order", "index"],
    "laplacian": ["order", "sparse", "rescale_per_node", "index"],
    "multiorder_laplacian": ["orders", "weights", "sparse", "rescale_per_node", "index"],
    "normalized_hypergraph_laplacian": ["weighted", "sparse", "index"],
    "clique_motif_matrix": ["sparse", "index"],
    "adjacency_tensor": ["order", "normalized", "index"],
}
_MENU = {"order": [None, 1, 2], "sparse": [True, False], "index": [False, True], "s": [1, 2], "weighted": [False, True],
         "rescale_per_node": [False, True], "orders": [[1, 2]], "weights": [[1, 0.5]], "normalized": [True, False]}


def calling_convention():
    """Every option combination, passed by position in the documented order, must give what the keywords give."""
    import xgi

    H = xgi.Hypergraph({"a": [1, 2], "b": [1, 2], "c": [1, 2, 3], "d": [3, 4], "e": [4]})
    H.add_node(9)
    out = []
    n = 0

    def arr(r):
        r = r[0] if isinstance(r, tuple) else r
        return np.asarray(r.toarray() if hasattr(r, "toarray") else r)

    for fn, names in DOC_ORDER.items():
        f = getattr(xgi, fn)
        menus = [[v for v in _MENU[p_] if not (fn in ("laplacian", "adjacency_tensor") and p_ == "order" and v is None)] for p_ in names]
        for vals in itertools.product(*menus):
            n += 1
            def call(g):
                try:
                    return ("ok", g())
                except Exception as e:  # noqa: BLE001
                    return ("raise", type(e).__name__)

            ka, a = call(lambda: f(H, **dict(zip(names, vals))))
            kb, b = call(lambda: f(H, *vals))
            if ka == "raise" or kb == "raise":
                same = (ka, a) == (kb, b)  # a documented refusal (isolated node, ...) must be the same refusal
            else:
                same = type(a) is type(b) and arr(a).shape == arr(b).shape and np.allclose(arr(a), arr(b)) and \
                    (not isinstance(a, tuple) or a[1:] == b[1:])
            if not same and len(out) < 4:
                out.append(("calling-convention", f"xgi.{fn}(H, {', '.join(map(repr, vals))}) (options by position in the documented "
                            f"order {names}) differs from the same options by keyword", {"fn": fn, "vals": [repr(v) for v in vals]}))
    return n, out


def run(tier, ev):
    items = family(tier)
    ev.cov["rule"] = ("all hypergraphs over 3 labels <=3 edges and 4 labels <=2 edges (thorough: 4/<=3, 5/2), each also with "
                      "non-positional labels (string nodes inserted in reverse, decreasing gapped edge IDs) and edge weights "
                      "{absent, all 1, in (0,1], some >1} x order {None,0,1,2,3} x s {1,2,3} x weighted x sparse x index x "
                      "rescale_per_node x 4 order/weight lists; every entry compared with a brute-force construction")
    res = explore.parallel_map(_work, items, env.nproc())
    viols = []
    n = 0
    for r in res:
        n += r["n"]
        for mon, msg, tags, spec in r["viols"]:
            viols.append(Violation(PROP, mon, msg, {"check": "c12", "kind": "matrix", "spec": spec, "monitor": mon}, tags))
    with warnings.catch_warnings():
        warnings.simplefilter("ignore")
        nc, cv = calling_convention()
    n += nc
    for mon, msg, det in cv:
        viols.append(Violation(PROP, mon, msg, {"check": "c12", "kind": "calling-convention", "detail": det}, {"function": det["fn"]}))
    ev.part("calling-convention", calls=nc, functions=list(DOC_ORDER))
    ev.add(states=len(items), transitions=n, evaluations=n, distinct_nontrivial=len(items))
    ev.sample({"spec": items[21][0], "weights": items[21][1]})
    ev.assumptions += ["float tolerance 1e-9; PSD means lambda_min >= -1e-9*max(1,|L|)", "normalised Laplacian judged on "
                       "networks without isolated nodes and without empty edges (documented error / undefined)"]
    return viols


def replay(case):
    if case.get("kind") == "calling-convention":
        with warnings.catch_warnings():
            warnings.simplefilter("ignore")
            _, cv = calling_convention()
        return [msg for _, msg, det in cv if det["fn"] == case["detail"]["fn"]]
    r = _work((case["spec"], "x"))
    return [f"{m}: {msg}" for m, msg, t, _ in r["viols"] if m == case.get("monitor")]
