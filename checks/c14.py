"""C14 Graph-reducible algorithms agree with an independent graph library (DESIGN.md 5 C14; E2).

Every quantity is recomputed with networkx on graphs the oracle builds directly from members()."""
import itertools
import math
import warnings

import networkx as nx

from xmc import canon as C
from xmc import env, explore, families as F
from xmc.evidence import Violation

PROP = "C14"


def check(H):
    import xgi

    out = []
    n_checks = 0

    def bad(mon, msg):
        if len(out) < 5:
            out.append((mon, msg))

    nodes = list(H.nodes)
    edges = list(H.edges)
    mem = {e: set(m) for e, m in H.edges.members(dtype=dict).items()}
    # oracle graphs
    P = nx.Graph()  # pairwise projection / clique expansion
    P.add_nodes_from(nodes)
    for m in mem.values():
        P.add_edges_from(itertools.combinations(sorted(m, key=repr), 2))
    Bp = nx.Graph()  # node-edge bipartite graph
    Bp.add_nodes_from(("n", x) for x in nodes)
    Bp.add_nodes_from(("e", e) for e in edges)
    for e, m in mem.items():
        Bp.add_edges_from((("n", x), ("e", e)) for x in m)
    comps = [frozenset(x for k, x in c if k == "n") for c in nx.connected_components(Bp)]
    comps = {c for c in comps if c}
    # ---- components
    n_checks += 1
    got = [frozenset(c) for c in xgi.connected_components(H)]
    if len(got) != len(set(got)) or set(got) != comps or sum(len(c) for c in got) != len(nodes):
        bad("components", f"connected_components = {got}, bipartite-graph components {comps}")
    if xgi.number_connected_components(H) != len(comps):
        bad("components", f"number_connected_components = {xgi.number_connected_components(H)}, expected {len(comps)}")
    if nodes:
        if bool(xgi.is_connected(H)) != (len(comps) == 1):
            bad("components", f"is_connected = {xgi.is_connected(H)} with {len(comps)} components")
        lcc = frozenset(xgi.largest_connected_component(H))
        if lcc not in comps or len(lcc) != max(len(c) for c in comps):
            bad("components", f"largest_connected_component = {set(lcc)} is not a largest component of {comps}")
        for x in nodes:
            c = frozenset(xgi.node_connected_component(H, C.fresh(x)))  # the ID named by value, not taken from a view
            if c not in comps or x not in c:
                bad("components", f"node_connected_component({x!r}) = {set(c)}")
    # ---- shortest paths
    n_checks += 1
    spl = dict(xgi.shortest_path_length(H))
    if set(spl) != set(nodes):
        bad("paths", f"shortest_path_length sources {set(spl)} != nodes")
    for s in nodes:
        want = nx.single_source_shortest_path_length(P, s)
        d = spl.get(s, {})
        d1 = xgi.single_source_shortest_path_length(H, C.fresh(s))  # the source named by value, not taken from a view
        for t in nodes:
            w = want.get(t, math.inf)
            if d.get(t) != w or d1.get(t) != w:
                bad("paths", f"distance {s!r}->{t!r}: shortest_path_length {d.get(t)}, single_source {d1.get(t)}, BFS in the "
                    f"clique expansion {w}; members {mem}")
        if set(d) != set(nodes):
            bad("paths", f"distances from {s!r} have keys {set(d)}")
    # ---- clustering coefficient of the projection
    n_checks += 1
    cc = xgi.clustering_coefficient(H)
    want = nx.clustering(P)
    for x in nodes:
        if abs(cc.get(x, -1) - want[x]) > 1e-9:
            bad("clustering", f"clustering_coefficient[{x!r}] = {cc.get(x)}, nx.clustering of the projection {want[x]}")
    if set(cc) != set(nodes):
        bad("clustering", f"clustering_coefficient keys {set(cc)} != nodes")
    # ---- projection graph
    n_checks += 1
    G = xgi.to_graph(H)
    if set(G.nodes) != set(nodes) or {frozenset(e) for e in G.edges} != {frozenset(e) for e in P.edges}:
        bad("to-graph", f"to_graph: nodes {list(G.nodes)} links {list(G.edges)}; expected {nodes} / {list(P.edges)}")
    # ---- s-line graph
    for s in (1, 2, 3):
        for weights in (None, "absolute", "normalized"):
            n_checks += 1
            LG = xgi.to_line_graph(H, s=s, weights=weights)
            wantl = {}
            for a, b in itertools.combinations(edges, 2):
                k = len(mem[a] & mem[b])
                if k >= s:
                    wantl[frozenset((a, b))] = k if weights == "absolute" else (k / min(len(mem[a]), len(mem[b])) if weights else None)
            gotl = {frozenset((a, b)): (d.get("weight") if weights else None) for a, b, d in LG.edges(data=True)}
            if set(LG.nodes) != set(edges) or set(gotl) != set(wantl):
                bad("line-graph", f"to_line_graph(s={s}, weights={weights}): vertices {list(LG.nodes)} links {list(gotl)}; "
                    f"expected {edges} / {list(wantl)}")
            elif weights and any(abs(gotl[k] - wantl[k]) > 1e-12 for k in wantl):
                bad("line-graph", f"to_line_graph(s={s}, weights={weights}) weights {gotl}, expected {wantl}")
    # ---- bipartite graph
    n_checks += 1
    BG, nd, ed = xgi.to_bipartite_graph(H, index=True)
    ok = set(nd.values()) == set(nodes) and set(ed.values()) == set(edges) and len(nd) == len(nodes) and len(ed) == len(edges) \
        and not (set(nd) & set(ed))
    if ok:
        ok = set(BG.nodes) == set(nd) | set(ed) and all(BG.nodes[v]["bipartite"] == 0 for v in nd) and \
            all(BG.nodes[v]["bipartite"] == 1 for v in ed)
    if ok:
        links = set()
        for u, v in BG.edges:
            if u in ed:
                u, v = v, u
            links.add((nd.get(u), ed.get(v)))
        ok = links == {(x, e) for e, m in mem.items() for x in m} and BG.number_of_edges() == len(links)
    if not ok:
        bad("bipartite-graph", f"to_bipartite_graph: vertices {dict(BG.nodes(data=True))} links {list(BG.edges)} maps {nd} {ed}")
    BG2 = xgi.to_bipartite_graph(H)
    if set(BG2.nodes) != set(BG.nodes) or {frozenset(e) for e in BG2.edges} != {frozenset(e) for e in BG.edges}:
        bad("bipartite-graph", "to_bipartite_graph differs between index=True/False")
    # ---- encapsulation DAG
    for st in ("all", "immediate", "empirical"):
        n_checks += 1
        dag = xgi.to_encapsulation_dag(H, subset_types=st)
        got = set(dag.edges)
        all_pairs = {(a, b) for a in edges for b in edges if mem[b] and mem[b] < mem[a]}
        if set(dag.nodes) != set(edges):
            bad("encapsulation-dag", f"to_encapsulation_dag({st!r}) vertices {list(dag.nodes)} != edges {edges}")
        if st == "all" and got != all_pairs:
            bad("encapsulation-dag", f"to_encapsulation_dag('all') links {got}, expected {all_pairs}; members {mem}")
        if st == "immediate":
            want = {(a, b) for a, b in all_pairs if len(mem[a]) == len(mem[b]) + 1}
            if got != want:
                bad("encapsulation-dag", f"to_encapsulation_dag('immediate') links {got}, expected {want}; members {mem}")
        if st == "empirical" and not got <= all_pairs:
            bad("encapsulation-dag", f"to_encapsulation_dag('empirical') has links outside the 'all' DAG: {got - all_pairs}")
    return n_checks, out


def check_directed(D):
    import xgi

    out = []
    BG, nd, ed = xgi.to_bipartite_graph(D, index=True)
    dm = D.edges.dimembers(dtype=dict)
    want = set()
    for e, (t, h) in dm.items():
        want |= {("n", x, "e", e) for x in t} | {("e", e, "n", x) for x in h}
    got = set()
    for u, v in BG.edges:
        if u in nd and v in ed:
            got.add(("n", nd[u], "e", ed[v]))
        elif u in ed and v in nd:
            got.add(("e", ed[u], "n", nd[v]))
        else:
            got.add(("?", u, "?", v))
    if not isinstance(BG, nx.DiGraph) or got != want or set(nd.values()) != set(D.nodes) or set(ed.values()) != set(D.edges):
        out.append(("bipartite-graph", f"directed to_bipartite_graph links {got}, expected tail->edge->head {want}"))
    return 1, out


def _work(spec):
    with warnings.catch_warnings():
        warnings.simplefilter("ignore")
        try:
            X = F.build(spec)
            n, v = check(X) if spec["cls"] != "D" else check_directed(X)
            F.detour(X)
            F.morph(X)  # a different network with the same node and edge counts
            F.rename(X)  # one node replaced by a node with a new label (same counts, another node set)
            n2, v2 = check(X) if spec["cls"] != "D" else check_directed(X)
            F.grow(X)  # one more edge with a fresh ID
            n3, v3 = check(X) if spec["cls"] != "D" else check_directed(X)
            n += n2 + n3
            v = list(v) + [(m, "[same object re-evaluated after in-place edits] " + msg) for m, msg in list(v2) + list(v3)]
        except RecursionError:
            raise
        except Exception as e:  # noqa: BLE001
            import traceback

            n, v = 1, [("raises", f"{type(e).__name__}: {e} at {traceback.format_exc().splitlines()[-3].strip()}")]
    return {"n": n, "viols": [(m, msg, spec) for m, msg in v]}


def family(tier):
    q = tier == "quick"
    base = list(F.undirected([1, 2, 3], 3)) + list(F.undirected([1, 2, 3, 4], 2, min_edges=1))
    if not q:
        base = list(F.undirected([1, 2, 3, 4], 3)) + list(F.undirected([1, 2, 3, 4, 5], 2, min_edges=2)) + [s for s in F.undirected([1, 2, 3, 4, 5], 3, isolated=False, min_edges=3) if 5 in s["nodes"]] + \
            list(F.undirected([1, 2, 3, 4, 5, 6], 3, isolated=False, multi=False, lo=2, hi=3, min_edges=3))
    items = []
    for k, s in enumerate(base):
        items.append(s)
        if k % 3 == 0:
            m = len(s["edges"])
            items.append(F.relabel(s, node_map={n: "v%d" % (9 - n) for n in s["nodes"]},
                                   edge_ids=["e%d" % (m - i) for i in range(m)], reverse_nodes=True))
        if k % 11 == 0:
            items.append(F.with_empty_edge(s))
    for s in base[::9]:
        for _, nm in F.exotic_label_maps(s["nodes"]):
            items.append(F.relabel(s, node_map=nm))
    items += F.wide()  # more than ten nodes and edges
    items += F.big()  # counts above 127
    # longer paths / cycles / nested edges
    items += [F.H([[i, i + 1] for i in range(6)]), F.H([[i, (i + 1) % 6] for i in range(6)]),
              F.H([[0, 1, 2], [2, 3, 4], [4, 5, 6], [6, 7]]), F.H([[1, 2, 3, 4], [1, 2, 3], [1, 2], [1], [3, 4], [4, 5]]),
              F.H([[1, 2], [3, 4], [5, 6], [6, 7, 8]], nodes=[1, 2, 3, 4, 5, 6, 7, 8, 9])]
    items += list(F.directed([1, 2, 3], 2))[::(4 if q else 1)]
    return items


def run(tier, ev):
    items = family(tier)
    ev.cov["rule"] = ("all hypergraphs over 3 labels <=3 edges and 4 labels <=2 edges (thorough adds 4/<=3, 5/2 and 6 labels/3 "
                      "edges), a third also with string labels / reversed insertion, some with an empty edge, plus paths, "
                      "cycles and nested edges; s in {1,2,3} x weights in {None, absolute, normalized} x subset_types; "
                      "every result compared with networkx on graphs the oracle builds from members()")
    res = explore.parallel_map(_work, items, env.nproc())
    viols = []
    n = 0
    for r in res:
        n += r["n"]
        for mon, msg, spec in r["viols"]:
            viols.append(Violation(PROP, mon, msg, {"check": "c14", "kind": "graph", "spec": spec, "monitor": mon}, {"what": mon}))
    ev.add(states=len(items), transitions=n, evaluations=n, distinct_nontrivial=len(items))
    ev.sample({"spec": items[77], "compared": ["components", "path lengths", "clustering", "to_graph", "to_line_graph",
                                               "to_bipartite_graph", "to_encapsulation_dag"]})
    ev.assumptions += ["networkx is the independent oracle", "'empirical' encapsulation DAG only checked to be a sub-DAG of 'all' "
                       "on the same vertex set (its definition is order-dependent prose)", "is_connected judged on networks "
                       "with at least one node"]
    return viols


def replay(case):
    r = _work(case["spec"])
    return [f"{m}: {msg}" for m, msg, _ in r["viols"] if m == case.get("monitor")]
