"""C08 Read-only API never mutates the network it is given (DESIGN.md 5 C08; programs x E2).

Programs are discovered by introspection (every public callable of the xgi namespace whose first parameter is a
network, the three class converters, read-only methods, view methods, every statistic with every output method);
arguments come from a name-driven synthesiser; inputs are a family of structurally diverse networks of the three
classes.  Oracle: the complete instance state (ordered IDs, members in iteration order, attributes, next automatic
ID, frozen flag) is identical before and after, whether the call returns or raises; containers handed out by the
call are additionally mutated in place (an internal set returned without copying shows up as a change)."""
import contextlib
import inspect
import io
import itertools
import os
import warnings

from xmc import canon as C
from xmc import env, explore, families as F
from xmc import provenance as PV
from xmc.evidence import Violation

PROP = "C08"

NET_PARAMS = ("H", "S", "SC", "net", "DH")
EXTRA = ("to_hypergraph", "to_dihypergraph", "to_simplicial_complex")
EXCLUDE = {"update_uid_counter": "documented in-place helper (advances the ID counter of its argument)"}
CAP = 12
CAP_DRAW = 2


def inputs(tier):
    out = []
    reps = F.representatives()
    if tier != "quick":
        reps = reps + [F.with_empty_edge(r) for r in reps[2:8]]
        reps += list(F.undirected([1, 2, 3], 2))
    out += reps
    out += [F.with_empty_edge(F.H([[1, 2], [2, 3]]))]
    # attribute values of every container type (sets are what merge_duplicate_edges(merge_rule="union") produces)
    rich_n = {1: {"tags": {"a", "b"}, "pos": (0.5, [1, 2]), "k": [1, {"z": 2}], "f": frozenset({1}), "x": None},
              4: {"tags": set(), "w": 1.5}}
    rich_e = {0: {"color": {"blue", "red"}, "weight": {None, 2}, "t": (1, {"k": [2]})}, 1: {"l": [1, 2], "d": {"a": {"b": [3]}}}}
    out += [F.H([[1, 2, 3], [3, 4]], nodes=[1, 2, 3, 4, 5], nattr=rich_n, eattr=rich_e, net={"meta": {"s": {1, 2}}, "t": (1, [2])}),
            F.S([[1, 2, 3], [3, 4]], nodes=[1, 2, 3, 4], nattr=rich_n, eattr=rich_e),
            F.D([([1, 2], [3]), ([3], [4])], nodes=[1, 2, 3, 4], nattr=rich_n, eattr=rich_e)]
    # complexes
    out += [F.S([[1, 2, 3]]), F.S([[1, 2, 3], [3, 4]]), F.S([[1, 2], [2, 3], [1, 3]]), F.S([[1, 2, 3, 4]], nodes=[1, 2, 3, 4, 5]),
            F.S([["a", "b", "c"], ["c", "d"]]), F.S([], nodes=[1]), F.S([[1, 2, 3], [2, 3, 4]], ids=[5, 2],
                                                                    eattr={0: {"weight": 2}})]
    # directed
    out += [F.D([([1], [2])]), F.D([([1, 2], [2, 3]), ([3], [1])]), F.D([([1], [2]), ([1], [2])], ids=[3, 1]),
            F.D([(["a"], ["b", "c"])], nodes=["a", "b", "c", "z"]), F.D([], nodes=[1, 2]),
            F.D([([1, 2], [3]), ([3], [4, 5])], eattr={0: {"weight": 2}})]
    # labels / IDs of other types (float, tuple, mixed): a function may refuse them, it must still not touch its input
    base = F.H([[1, 2, 3], [3, 4], [1, 2], [4]], nodes=[1, 2, 3, 4, 5], eattr={0: {"weight": 2}})
    for j, (_, nm) in enumerate(F.exotic_label_maps(base["nodes"])):
        eids = [[i + 0.5 for i in range(4)], [("e", i) for i in range(4)], ["a", 7, (1, 2), 2.5], list(range(4))][j % 4]
        out.append(F.relabel(base, node_map=nm, edge_ids=eids))
    return out


def programs():
    import xgi

    progs = []
    for name in sorted(dir(xgi)):
        if name.startswith("_"):
            continue
        f = getattr(xgi, name)
        if not callable(f) or inspect.isclass(f) or inspect.ismodule(f):
            continue
        try:
            sig = inspect.signature(f)
        except (TypeError, ValueError):
            continue
        ps = list(sig.parameters)
        if not ps:
            continue
        if ps[0] in NET_PARAMS or name in EXTRA:
            if name in EXCLUDE:
                continue
            progs.append(("fn", name))
    for c in ("Hypergraph", "DiHypergraph", "SimplicialComplex"):
        progs.append(("ctor", c))
    for m in ("copy", "dual", "cleanup", "__str__", "__len__", "__iter__", "__contains__", "__getitem__",
              "__lshift__", "has_simplex", "num_nodes", "num_edges", "is_frozen", "nodes", "edges", "__getstate__"):
        progs.append(("method", m))
    for v in ("nodes", "edges"):
        for m in ("memberships", "members", "dimemberships", "dimembers", "head", "tail", "neighbors", "duplicates", "lookup",
                  "filterby", "filterby_attr", "isolates", "singletons", "empty", "maximal", "ids", "setops", "call",
                  "getitem", "iter", "sources", "targets"):
            progs.append(("view", f"{v}.{m}"))
        progs.append(("stats", v))
    return progs


# ---------------------------------------------------------------------------------------------------------------
# argument synthesis


def _menus(fname, pname, param, H, tmp):
    nodes = list(H.nodes)
    edges = list(H.edges)
    d = param.default
    B = lambda: [d, (not d)] if isinstance(d, bool) else [False, True]  # noqa: E731
    if pname == "in_place":
        import numpy as _np

        return [False, _np.False_, 0]  # "not in place" spelt with a numpy bool (the result of a comparison) and with 0
    if pname in ("sparse", "index", "weighted", "normalized", "normalize", "rescale_per_node", "exact", "ignore_singletons",
                 "include_self", "equidistant", "return_phantom_graph", "keep_isolates", "exclude_min_size", "hull",
                 "node_labels", "hyperedge_labels", "rescale_sizes"):
        return B()
    if pname == "order":
        return [1, 2] if d is inspect.Parameter.empty else [d, 1, 2] if d is None else [d, 2]
    if pname in ("max_order",):
        return [d, 1, 2, 0] if d is None else [d, 1]
    if pname == "s":
        return [1, 2]
    if pname == "d":
        return [1, 2] if d is inspect.Parameter.empty else [d, 1]
    if pname == "kind":
        return {"degree_assortativity": ["uniform", "top-2", "top-bottom"],
                "two_node_clustering_coefficient": ["union", "min", "max"]}.get(fname, [d])
    if pname in ("n", "source", "nid1"):
        return nodes[:1] + nodes[-1:] if nodes else [0]
    if pname == "nid2":
        return nodes[-1:] if nodes else [1]
    if pname == "k":
        return [2] if fname == "spectral_clustering" else [None]
    if pname == "seed":
        return [0]
    if pname == "p":
        return [0.5]
    if pname in ("pos", "node_pos"):
        import math

        pos = {n: (math.cos(i), math.sin(i)) for i, n in enumerate(nodes)}
        return [pos] if d is inspect.Parameter.empty else [None, pos]
    if pname == "path":
        return [os.path.join(tmp, f"{os.getpid()}-{fname}.out")]
    if pname == "orders":
        return [[1, 2]]
    if pname == "weights":
        return [[1, 0.5]] if fname == "multiorder_laplacian" else [None, "absolute", "normalized"]
    if pname in ("k2", "k3"):
        return [1]
    if pname == "timesteps":
        return [5]
    if pname == "n_steps":
        return [5]
    if pname == "T":
        return [1]
    if pname == "subset_types":
        return ["all", "immediate", "empirical"]
    if pname == "nodes":
        return [None, nodes[:2]]
    if pname == "edges":
        return [None, edges[:1]]
    if pname == "dag":
        import xgi

        return [xgi.to_encapsulation_dag(H)]
    if pname == "num_samples":
        return [5]
    if pname in ("cutoff", "max_iter"):
        return [5]
    if pname == "min_size":
        return [d, 1] if d is not inspect.Parameter.empty else [2]
    if pname == "id_temp":
        return [-1]
    if pname in ("node_size", "node_fc", "dyad_lw"):
        return [d]
    if d is inspect.Parameter.empty:
        return None  # cannot synthesise
    return [d]


def _combos(fname, f, H, tmp):
    sig = inspect.signature(f)
    names, menus = [], []
    for pname, param in list(sig.parameters.items())[1:]:
        if param.kind in (param.VAR_POSITIONAL, param.VAR_KEYWORD):
            continue
        m = _menus(fname, pname, param, H, tmp)
        if m is None:
            return None
        if len(m) == 1 and param.default is not inspect.Parameter.empty and m[0] is param.default:
            continue
        names.append(pname)
        menus.append(m)
    cap = (CAP_DRAW if fname.startswith("draw") else CAP) * (1 if _TIER == "quick" else 5)
    out = []
    for vals in itertools.islice(itertools.product(*menus), 200):
        out.append(dict(zip(names, vals)))
    if len(out) > cap:
        # keep the all-defaults combination, then a deterministic spread
        step = len(out) / cap
        out = [out[int(i * step)] for i in range(cap)]
    # one factor at a time: every value of every parameter's menu occurs at least once (others at their first value),
    # whatever the cap kept
    base = {n: m[0] for n, m in zip(names, menus)}
    for n, m in zip(names, menus):
        for v in m[1:]:
            kw = dict(base)
            kw[n] = v
            if kw not in out:
                out.append(kw)
    return out


_IDS = set()


def _consume(r, accessor=False):
    """Exhaust generators; add an element to every *set* handed out by the call (member / membership sets must be
    copies: an internal set returned uncopied shows up as a change of the network).  Attribute dicts are live by
    design and are left alone."""
    try:
        if inspect.isgenerator(r):
            r = list(r)

        def poke(x, depth=0):
            if accessor:
                return  # attribute records are handed out live by design; their values are the caller's business
            if isinstance(x, set):
                if x <= _IDS:  # a set of node / edge IDs: a member or membership set
                    x.add("MUT")
            elif depth < 2 and isinstance(x, (list, tuple)):
                for y in list(x)[:4]:
                    poke(y, depth + 1)
            elif depth < 2 and isinstance(x, dict):
                for y in list(x.values())[:4]:
                    poke(y, depth + 1)

        poke(r)
        for net in (r if isinstance(r, (tuple, list)) else [r]):
            _edit_result(net)
    except Exception:  # noqa: BLE001
        pass


def _edit_result(net):
    """A network returned by the call is edited in place afterwards (as its new owner may): if it shares member /
    membership sets with the input network, the input changes."""
    cls = type(net).__name__
    if cls not in ("Hypergraph", "DiHypergraph", "SimplicialComplex") or getattr(net, "frozen", False) is True:
        return
    # attribute tables of a returned network are its own: new keys at network, node and edge level
    try:
        net["MUT"] = 1
        net.set_node_attributes({n: {"MUT": 1} for n in list(net.nodes)[:2]})
        net.set_edge_attributes({e: {"MUT": 1} for e in list(net.edges)[:2]})
    except Exception:  # noqa: BLE001
        pass
    if cls == "SimplicialComplex":
        try:
            net.add_simplex(["MUT", "MUT2"])
            net.remove_simplex_ids_from(list(net.edges)[:1])
        except Exception:  # noqa: BLE001
            pass
        return
    for e in list(net.edges)[:4]:
        try:
            if cls == "Hypergraph":
                net.add_node_to_edge(e, "MUT")
            else:
                net.add_node_to_edge(e, "MUT", "in")
                net.add_node_to_edge(e, "MUT2", "out")
        except Exception:  # noqa: BLE001
            pass
    for n in list(net.nodes)[:3]:
        try:
            if cls == "Hypergraph":
                for e in list(net.nodes.memberships(n))[:2]:
                    net.remove_node_from_edge(e, n, remove_empty=False)
            net.add_node_to_edge("MUTEDGE", n) if cls == "Hypergraph" else net.add_node_to_edge("MUTEDGE", n, "in")
        except Exception:  # noqa: BLE001
            pass


def _clear_results(r):
    """Second phase, judged separately (clearing a shared table could undo what the first phase revealed): the returned
    networks are emptied in place."""
    for net in (r if isinstance(r, (tuple, list)) else [r]):
        if type(net).__name__ in ("Hypergraph", "DiHypergraph", "SimplicialComplex") and getattr(net, "frozen", False) is not True:
            try:
                net.clear()
            except Exception:  # noqa: BLE001
                pass


def _calls_for(kind, name, H, tmp):
    """Yield (label, thunk) pairs for one program on one input."""
    import xgi

    nodes, edges = list(H.nodes), list(H.edges)
    if kind == "fn":
        f = getattr(xgi, name)
        combos = _combos(name, f, H, tmp)
        if combos is None:
            return
        for kw in combos:
            yield f"xgi.{name}(H, **{ {k: (v if not isinstance(v, dict) or len(v) < 4 else '<dict>') for k, v in kw.items()} })", \
                (lambda f=f, kw=kw: f(H, **kw))
    elif kind == "ctor":
        # a network handed to a class constructor (with and without network attributes given as keywords), and to a
        # converter twice with the same create_using target
        cls = getattr(xgi, name)
        conv = {"Hypergraph": xgi.to_hypergraph, "DiHypergraph": xgi.to_dihypergraph, "SimplicialComplex": xgi.to_simplicial_complex}[name]
        yield f"xgi.{name}(H)", lambda: cls(H)
        yield f"xgi.{name}(H, name='ctor', extra=[1])", lambda: cls(H, name="ctor", extra=[1])

        def twice():
            T = cls()
            conv(H, create_using=T)
            conv(cls(), create_using=T)  # re-using the target clears it
            return T

        yield f"xgi.to_{name.lower()}(H, create_using=T) twice", twice
    elif kind == "method":
        if name == "cleanup":
            yield "H.cleanup(in_place=False)", lambda: H.cleanup(in_place=False)
            if type(H).__name__ == "Hypergraph":
                yield "H.cleanup(connected=True, relabel=False, in_place=False)", \
                    lambda: H.cleanup(connected=True, relabel=False, in_place=False)
        elif name == "__lshift__":
            if type(H).__name__ == "Hypergraph":
                yield "H << H2", lambda: H << xgi.Hypergraph({7: [1, 9]})
                yield "H2 << H", lambda: xgi.Hypergraph({7: [1, 9]}) << H
                yield "H << H", lambda: H << H
        elif name == "has_simplex":
            if hasattr(H, "has_simplex"):
                yield "H.has_simplex(nodes[:2])", lambda: H.has_simplex(nodes[:2])
        elif name == "__contains__":
            yield "n in H", lambda: (nodes[0] if nodes else 0) in H
        elif name == "__getitem__":
            yield "H['name']", lambda: H["name"]
        elif name == "__iter__":
            yield "list(iter(H))", lambda: list(iter(H))
        elif name in ("num_nodes", "num_edges", "is_frozen", "nodes", "edges"):
            yield f"H.{name}", lambda: getattr(H, name)
        elif name == "__getstate__":
            yield "pickle.dumps(H)", lambda: __import__("pickle").dumps(H)
        elif hasattr(H, name):
            yield f"H.{name}()", lambda: getattr(H, name)()
    elif kind == "view":
        vname, m = name.split(".")
        view = getattr(H, vname)
        ids = list(view)
        other = edges if vname == "nodes" else nodes
        if m in ("memberships", "members", "dimemberships", "dimembers", "head", "tail", "sources", "targets"):
            if not hasattr(view, m):
                return
            yield f"H.{vname}.{m}()", lambda: getattr(view, m)()
            if ids:
                yield f"H.{vname}.{m}(id)", lambda: getattr(view, m)(ids[0])
            if m in ("members", "dimembers", "head", "tail"):
                yield f"H.{vname}.{m}(dtype=dict)", lambda: getattr(view, m)(dtype=dict)
        elif m == "neighbors":
            if ids:
                yield f"H.{vname}.neighbors(id)", lambda: view.neighbors(ids[0])
                yield f"H.{vname}.neighbors(id, s=2)", lambda: view.neighbors(ids[-1], s=2)
        elif m == "lookup":
            yield f"H.{vname}.lookup(...)", lambda: view.lookup(other[:2])
        elif m == "filterby":
            st = "degree" if vname == "nodes" else "size"
            yield f"H.{vname}.filterby({st!r}, 1, 'geq')", lambda: view.filterby(st, 1, "geq")
        elif m == "filterby_attr":
            yield f"H.{vname}.filterby_attr('weight', 1)", lambda: view.filterby_attr("weight", 1, "geq", missing=0)
        elif m in ("duplicates", "isolates", "singletons", "empty", "maximal"):
            if hasattr(view, m):
                yield f"H.{vname}.{m}()", lambda: getattr(view, m)()
                if m == "isolates" and type(H).__name__ != "DiHypergraph":
                    yield f"H.{vname}.isolates(ignore_singletons=True)", lambda: view.isolates(ignore_singletons=True)
                if m == "maximal":
                    yield f"H.{vname}.maximal(strict=True)", lambda: view.maximal(strict=True)
        elif m == "ids":
            yield f"H.{vname}.ids", lambda: view.ids
        elif m == "setops":
            sub = view(ids[:2]) if ids else view
            yield f"H.{vname} & sub", lambda: view & sub
            yield f"H.{vname} | sub", lambda: view | sub
            yield f"H.{vname} - sub", lambda: view - sub
            yield f"H.{vname} ^ sub", lambda: view ^ sub
        elif m == "call":
            yield f"H.{vname}(bunch)", lambda: view(ids[:2])
        elif m == "getitem":
            if ids:
                def _gi():
                    a = view[ids[0]]
                    return a

                yield f"H.{vname}[id]", _gi
        elif m == "iter":
            yield f"list(H.{vname})", lambda: list(view)
    elif kind == "stats":
        view = getattr(H, name)
        modname = {("nodes", False): "nodestats", ("edges", False): "edgestats", ("nodes", True): "dinodestats",
                   ("edges", True): "diedgestats"}[(name, type(H).__name__ == "DiHypergraph")]
        mod = getattr(xgi.stats, modname)
        for sname, fn in sorted(vars(mod).items()):
            if sname.startswith("_") or not inspect.isfunction(fn) or fn.__module__ != mod.__name__:
                continue
            for out in ("asdict", "aslist", "asnumpy", "aspandas", "max", "min", "sum", "mean", "items", "ashist"):
                def _st(sname=sname, out=out):
                    st = getattr(view, sname)
                    r = getattr(st, out)()
                    return dict(r) if out == "items" else r

                yield f"H.{name}.{sname}.{out}()", _st
        yield f"H.{name}.multi([...])", lambda: view.multi(["degree" if name == "nodes" else "size"]).asdict()


_INPUTS = None
_TMP = None
_TIER = "quick"


def _run_program(prog):
    import matplotlib

    matplotlib.use("Agg")
    import matplotlib.pyplot as plt

    kind, name = prog
    calls = ok = 0
    viols = []
    inputs_ok = set()
    for idx, spec in enumerate(_INPUTS):
        H = F.build(spec)
        before = C.state_key(H)
        _IDS.clear()
        _IDS.update(H.nodes)
        _IDS.update(H.edges)
        for label, thunk in _calls_for(kind, name, H, _TMP) or ():
            calls += 1
            raised = None
            with warnings.catch_warnings(), contextlib.redirect_stdout(io.StringIO()):
                warnings.simplefilter("ignore")
                try:
                    r = thunk()
                    mid = C.state_key(H)  # judged before the result is touched (an edit of the result could undo a change)
                    if mid == before:
                        _consume(r, accessor=("attrs" in label or label.endswith("[id]") or "getstate" in label or "dumps" in label))
                        if C.state_key(H) == before:
                            _clear_results(r)
                    ok += 1
                    inputs_ok.add(idx)
                except RecursionError:
                    raise
                except Exception as e:  # noqa: BLE001
                    raised = type(e).__name__
            after = C.state_key(H)
            if after != before:
                if len(viols) < 5:
                    viols.append((label, idx, raised, _diff(before, after)))
                H = F.build(spec)
                before = C.state_key(H)
        if name.startswith("draw") or "layout" in name:
            plt.close("all")
    return {"prog": prog, "calls": calls, "ok": ok, "inputs_ok": len(inputs_ok), "viols": viols}


def _diff(a, b):
    da, db = dict(a[1]), dict(b[1])
    out = []
    for k in da:
        if da[k] != db.get(k):
            out.append(f"{k}: {str(da[k])[:160]} -> {str(db.get(k))[:160]}")
    return "; ".join(out)[:600]


def run(tier, ev):
    global _INPUTS, _TMP, _TIER
    _TIER = tier
    _INPUTS = inputs(tier)
    _TMP = PV.tmpdir()
    progs = programs()
    ev.cov["rule"] = ("programs discovered by introspection x argument combinations from a name-driven synthesiser x a "
                      "family of input networks of the three classes; a case is one call; distinct_nontrivial = calls that "
                      "returned normally (the call really ran on that input); oracle: complete instance state identical "
                      "before and after, returned containers mutated in place first")
    res = explore.parallel_map(_run_program, progs, env.nproc(), chunk=1)
    viols = []
    tot_calls = tot_ok = 0
    exercised = 0
    for r in res:
        kind, name = r["prog"]
        tot_calls += r["calls"]
        tot_ok += r["ok"]
        if r["ok"] == 0:
            ev.cov["not_exercised"].append(f"{kind}:{name}")
        else:
            exercised += 1
        for label, idx, raised, diff in r["viols"]:
            case = {"check": "c08", "kind": "call", "program": [kind, name], "label": label, "input": _INPUTS[idx]}
            viols.append(Violation(PROP, "mutated-input", f"{label} changed its argument "
                                   f"({'raised ' + raised if raised else 'returned'}): {diff}", case,
                                   {"program": name, "kind": kind}))
    ev.add(states=len(_INPUTS), transitions=tot_calls, evaluations=tot_calls, distinct_nontrivial=tot_ok)
    ev.cov["programs"] = len(progs)
    ev.cov["programs_exercised"] = exercised
    ev.cov["inputs"] = len(_INPUTS)
    ev.cov["excluded"] = EXCLUDE
    k = 1 if tier == "quick" else 5
    ev.cov["caps_hit"].append(f"at most {CAP * k} argument combinations per function ({CAP_DRAW * k} for draw functions), spread "
                              "deterministically over the menu product")
    ev.cov["exhaustive"] = False
    ev.sample({"program": "xgi.adjacency_matrix", "kwargs": {"order": 1, "sparse": False}, "input": _INPUTS[6]})
    ev.sample({"program": "H.edges.members(dtype=dict) then mutate the returned sets", "input": _INPUTS[4]})
    ev.assumptions += ["a public callable of the xgi namespace with a network first parameter and no in_place parameter is "
                       "read-only unless listed under 'excluded'"]
    return viols


def replay(case):
    global _TMP
    _TMP = PV.tmpdir()
    H = F.build(case["input"])
    before = C.state_key(H)
    kind, name = case["program"]
    msgs = []
    for label, thunk in _calls_for(kind, name, H, _TMP) or ():
        if label != case["label"]:
            continue
        with warnings.catch_warnings():
            warnings.simplefilter("ignore")
            try:
                _IDS.clear(); _IDS.update(H.nodes); _IDS.update(H.edges)
                r = thunk()
                if C.state_key(H) == before:
                    _consume(r, accessor=("attrs" in label or label.endswith("[id]") or "getstate" in label or "dumps" in label))
                    if C.state_key(H) == before:
                        _clear_results(r)
            except Exception:  # noqa: BLE001
                pass
        after = C.state_key(H)
        if after != before:
            msgs.append(f"{label} changed its argument: {_diff(before, after)}")
    return msgs
