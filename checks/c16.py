"""C16 Generators deliver the structure their parameters promise (DESIGN.md 5 C16; E3 + parameter grids).

Randomized generators are run under *every* outcome sequence of the random source (the harness owns random,
numpy.random, geometric and networkx.fast_gnp_random_graph); deterministic generators over parameter grids; the
index decodings exhaustively.  A secondary pass with real seeds on larger parameters is reported separately."""
import importlib
import itertools
import math
import signal
import warnings

import networkx as nx
import numpy as np

from xmc import choice as CH
from xmc import env, explore
from xmc.evidence import Violation

PROP = "C16"
MAX_EXECS = 100000


def edges_of(H):
    return [frozenset(m) for m in H.edges.members()]


def outcome(H):
    return (tuple(H.nodes), tuple(sorted(tuple(sorted(e, key=repr)) for e in edges_of(H))))


# ---------------------------------------------------------------------------------------------------------------
# A. index decodings


def task_decodings(arg):
    kind, nmax = arg
    try:
        U = importlib.import_module("xgi.generators.uniform")
        fc, fp, fpart = U._index_to_edge_comb, U._index_to_edge_prod, U._index_to_edge_partition
    except (ImportError, AttributeError) as e:
        return {"n": 0, "viols": [], "skipped": f"decoding helpers not found ({e})"}
    viols = []
    n = 0
    with warnings.catch_warnings():
        warnings.simplefilter("error")
        try:
            if kind == "comb":
                for N in range(1, nmax + 1):
                    for m in range(1, N + 1):
                        want = list(itertools.combinations(range(N), m))
                        got = [tuple(fc(i, N, m)) for i in range(len(want))]
                        n += len(want)
                        if got != want:
                            viols.append(("decoding", f"_index_to_edge_comb(., {N}, {m}) is not the bijection onto combinations: "
                                          f"first difference at index {next(i for i in range(len(want)) if got[i] != want[i])}",
                                          {"fn": "comb", "n": N, "m": m}))
            elif kind == "prod":
                for N in range(1, nmax + 1):
                    for m in range(1, 5 if nmax >= 5 else 4):
                        want = list(itertools.product(range(N), repeat=m))
                        got = [tuple(fp(i, N, m)) for i in range(len(want))]
                        n += len(want)
                        if got != want:
                            viols.append(("decoding", f"_index_to_edge_prod(., {N}, {m}) is not the bijection onto tuples",
                                          {"fn": "prod", "n": N, "m": m}))
            else:
                for m in (1, 2, 3):
                    for sizes in itertools.product(range(1, nmax + 1), repeat=m):
                        want = list(itertools.product(*[range(s) for s in sizes]))
                        got = [tuple(fpart(i, list(sizes), m)) for i in range(len(want))]
                        n += len(want)
                        if got != want:
                            viols.append(("decoding", f"_index_to_edge_partition(., {list(sizes)}, {m}) is not the bijection onto "
                                          f"the block product", {"fn": "partition", "sizes": list(sizes), "m": m}))
        except Warning as w:
            viols.append(("decoding", f"decoding warned on an in-range index: {w}", {"fn": kind}))
    return {"n": n, "viols": viols[:3]}


# ---------------------------------------------------------------------------------------------------------------
# B. deterministic generators


class _Timeout(Exception):
    pass


def _alarm(signum, frame):
    raise _Timeout()


def _graph(nodes, links):
    G = nx.Graph()
    G.add_nodes_from(nodes)
    G.add_edges_from(links)
    return G


def _ss(sets):
    return sorted((sorted(x, key=repr) for x in sets), key=repr)


def all_graphs(N):
    """Every graph on N vertices, each in several *presentations*: sorted integer labels added in sorted order (what
    networkx's own generators produce), reversed vertex / link / endpoint order, string labels added out of lexical
    order, labels of mixed types, tuple labels (as in networkx grid graphs), and - up to 4 links - every link insertion order with alternating endpoint order.
    Cliques do not depend on the presentation; adjacency iteration order does."""
    pairs = list(itertools.combinations(range(N), 2))
    names = ["c", "a", "e", "b", "d", "f"][:N]
    mixed = [0, "a", 2, "b", 4, "c"][:N]
    for mask in range(1 << len(pairs)):
        sel = [pairs[i] for i in range(len(pairs)) if mask >> i & 1]
        yield (mask, "sorted"), _graph(range(N), sel)
        yield (mask, "reversed"), _graph(reversed(range(N)), [(b, a) for a, b in reversed(sel)])
        yield (mask, "strings"), _graph(names, [(names[b], names[a]) for a, b in sel[1:] + sel[:1]])
        yield (mask, "mixed"), _graph(mixed, [(mixed[b], mixed[a]) if (a + b) % 2 else (mixed[a], mixed[b]) for a, b in sel])
        tup = [(i // 2, i % 2) for i in range(N)]  # grid-style tuple labels
        yield (mask, "tuples"), _graph(tup, [(tup[a], tup[b]) for a, b in sel])
        # the same graph as a MultiGraph (links carry keys), without and with a parallel copy of its first link
        MG = nx.MultiGraph()
        MG.add_nodes_from(names)
        MG.add_edges_from([(names[a], names[b]) for a, b in sel])
        yield (mask, "multigraph"), MG
        if sel:
            MG2 = nx.MultiGraph()
            MG2.add_nodes_from(range(10, 10 + N))
            MG2.add_edges_from([(10 + a, 10 + b) for a, b in sel] + [(10 + sel[0][1], 10 + sel[0][0])])
            yield (mask, "multigraph-parallel"), MG2
        if 2 <= len(sel) <= 4:
            for k, perm in enumerate(itertools.permutations(sel)):
                if k:
                    yield (mask, f"order{k}"), _graph(range(N), [(a, b) if i % 2 else (b, a) for i, (a, b) in enumerate(perm)])


def cliques_upto(G, kmax):
    out = set()
    nodes = list(G.nodes)
    for k in range(2, (len(nodes) if kmax is None else min(kmax, len(nodes))) + 1):
        for c in itertools.combinations(nodes, k):
            if all(G.has_edge(a, b) for a, b in itertools.combinations(c, 2)):
                out.add(frozenset(c))
    return out


def closed(sets):
    s = set(sets)
    return all(frozenset(c) in s for e in s for k in range(2, len(e)) for c in itertools.combinations(e, k))


def task_deterministic(arg):
    import xgi

    kind = arg[0]
    viols = []
    n = 0

    def bad(msg, params):
        if len(viols) < 3:
            viols.append(("structure", msg, params))

    with warnings.catch_warnings():
        warnings.simplefilter("ignore")
        if kind == "complete":
            for N in range(0, arg[1] + 1):
                for order in range(0, N + 1):
                    n += 1
                    H = xgi.complete_hypergraph(N, order=order)
                    want = sorted(map(tuple, itertools.combinations(range(N), order + 1)))
                    got = sorted(tuple(sorted(e)) for e in edges_of(H))
                    if got != want or list(H.nodes) != list(range(N)):
                        bad(f"complete_hypergraph({N}, order={order}): nodes {list(H.nodes)}, {len(got)} edges, expected each of the "
                            f"{len(want)} node sets of size {order + 1} exactly once", {"gen": "complete_hypergraph", "N": N, "order": order})
                for mo in range(1, N + 1):
                    for sing in (False, True):
                        n += 1
                        H = xgi.complete_hypergraph(N, max_order=mo, include_singletons=sing)
                        want = sorted(c for k in range(1 if sing else 2, mo + 2) for c in itertools.combinations(range(N), k))
                        got = sorted(tuple(sorted(e)) for e in edges_of(H))
                        if got != want or list(H.nodes) != list(range(N)):
                            bad(f"complete_hypergraph({N}, max_order={mo}, include_singletons={sing}) does not contain each "
                                f"admissible node set exactly once", {"gen": "complete_hypergraph", "N": N, "max_order": mo})
            for N in range(0, 5):
                n += 1
                H = xgi.trivial_hypergraph(N)
                if list(H.nodes) != list(range(N)) or H.num_edges:
                    bad(f"trivial_hypergraph({N})", {"gen": "trivial_hypergraph", "n": N})
            for f, cls in ((xgi.empty_hypergraph, "Hypergraph"), (xgi.empty_dihypergraph, "DiHypergraph"),
                           (xgi.empty_simplicial_complex, "SimplicialComplex")):
                n += 1
                H = f()
                if type(H).__name__ != cls or H.num_nodes or H.num_edges:
                    bad(f"{f.__name__}() is not an empty {cls}", {"gen": f.__name__})
        elif kind == "lattice":
            for N in range(3, arg[1] + 1):
                for d in (2, 3, 4):
                    for k in (0, 2, 4):
                        for l in (0, 1, 2):
                            if N < k // 2 + l + d - 1:
                                continue
                            n += 1
                            H = xgi.ring_lattice(N, d, k, l)
                            es = edges_of(H)
                            if set(H.nodes) != set(range(N)) or len(es) != N * (k // 2) or any(len(e) != d for e in es) or \
                                    any(not e <= set(range(N)) for e in es):
                                bad(f"ring_lattice({N}, {d}, {k}, {l}): nodes {sorted(H.nodes)}, edge sizes "
                                    f"{sorted(len(e) for e in es)}, expected {N * (k // 2)} edges of size {d}",
                                    {"gen": "ring_lattice", "n": N, "d": d, "k": k, "l": l})
                            deg = H.nodes.degree.asdict()
                            if k and d == 2 and l == 0 and any(v != k for v in deg.values()):
                                bad(f"ring_lattice({N}, 2, {k}, 0) degrees {deg}, expected {k}-regular",
                                    {"gen": "ring_lattice", "n": N, "d": d, "k": k, "l": l})
        elif kind == "simple":
            for ns in range(1, 5):
                for nc in range(1, 5):
                    for dm in range(0, nc):
                        n += 1
                        H = xgi.star_clique(ns, nc, dm)
                        want = [frozenset((0, i)) for i in range(1, ns)] + [frozenset((0, ns))] + \
                            [frozenset(c) for d in range(1, dm + 1) for c in itertools.combinations(range(ns, ns + nc), d + 1)]
                        if sorted(map(sorted, edges_of(H))) != sorted(map(sorted, want)) or list(H.nodes) != list(range(ns + nc)):
                            bad(f"star_clique({ns}, {nc}, {dm}) edges {sorted(map(sorted, edges_of(H)))}",
                                {"gen": "star_clique", "args": [ns, nc, dm]})
            old = signal.signal(signal.SIGALRM, _alarm)
            try:
                for l in range(1, 5):
                    for c in range(0, 4):
                        for m in range(max(c, 1), c + 4):
                            n += 1
                            signal.alarm(5)
                            try:
                                H = xgi.sunflower(l, c, m)
                            except _Timeout:
                                bad(f"sunflower({l}, {c}, {m}) did not return within 5 s", {"gen": "sunflower", "args": [l, c, m]})
                                continue
                            finally:
                                signal.alarm(0)
                            es = edges_of(H)
                            core = frozenset(range(c))
                            ok = len(es) == l and all(len(e) == m and core <= e for e in es)
                            if ok and m > c:
                                ok = all((a & b) == core for a, b in itertools.combinations(es, 2)) and \
                                    H.num_nodes == c + l * (m - c)
                            if not ok:
                                bad(f"sunflower({l}, {c}, {m}): edges {list(map(sorted, es))}; expected {l} petals of size {m} "
                                    f"pairwise intersecting exactly in the core {sorted(core)}", {"gen": "sunflower", "args": [l, c, m]})
            finally:
                signal.signal(signal.SIGALRM, old)
        elif kind == "flag":
            N = arg[1]
            for mask, G in all_graphs(N):
                for mo in (1, 2, 3, None):
                    n += 1
                    try:
                        S = xgi.flag_complex(G, max_order=mo)
                    except Exception as e:  # noqa: BLE001
                        bad(f"flag_complex(G, max_order={mo}) on graph {list(G.edges)} [{mask[1]}] raised {type(e).__name__}: {e}",
                            {"gen": "flag_complex", "N": N, "mask": mask[0], "presentation": mask[1], "max_order": mo})
                        continue
                    got = {e for e in edges_of(S) if len(e) >= 2}
                    want = cliques_upto(G, None if mo is None else mo + 1)
                    if got != want or set(S.nodes) != set(G.nodes) or len(edges_of(S)) != len(set(edges_of(S))) or not closed(got):
                        bad(f"flag_complex(G, max_order={mo}) on graph {list(G.edges)} [{mask[1]}]: simplices {_ss(got)}, "
                            f"cliques {_ss(want)}", {"gen": "flag_complex", "N": N, "mask": mask[0], "presentation": mask[1], "max_order": mo})
                n += 1
                try:
                    S = xgi.flag_complex_d2(G)
                except Exception as e:  # noqa: BLE001
                    bad(f"flag_complex_d2 on graph {list(G.edges)} [{mask[1]}] raised {type(e).__name__}: {e}",
                        {"gen": "flag_complex_d2", "N": N, "mask": mask[0], "presentation": mask[1]})
                    continue
                got = {e for e in edges_of(S) if len(e) >= 2}
                want = cliques_upto(G, 3)
                if got != want or set(S.nodes) != set(G.nodes):
                    bad(f"flag_complex_d2 on graph {list(G.edges)} [{mask[1]}]: simplices {_ss(got)}, cliques up to "
                        f"triangles {_ss(want)}", {"gen": "flag_complex_d2", "N": N, "mask": mask[0], "presentation": mask[1]})
    return {"n": n, "viols": viols}


# ---------------------------------------------------------------------------------------------------------------
# C. randomized generators under every outcome sequence


def powerset_size(n):
    return 1 << n


def make_tasks(tier):
    q = tier == "quick"
    T = []
    # fast_random_hypergraph / random_hypergraph
    for n in (3, 4) if q else (3, 4, 5):
        for order in (1, 2):
            if order + 1 > n:
                continue
            for p in (0.0, 0.5, 1.0):
                T.append(("fast_random_hypergraph", {"n": n, "ps": p, "order": order}))
                T.append(("random_hypergraph", {"n": n, "ps": p, "order": order}))
    T.append(("fast_random_hypergraph", {"n": 4, "ps": [0.5, 0.5], "order": None}))
    T.append(("fast_random_hypergraph", {"n": 4, "ps": [1.0, 0.5], "order": None}))
    T.append(("fast_random_hypergraph", {"n": 4, "ps": [0.5, 0.0], "order": None}))
    T.append(("random_hypergraph", {"n": 4, "ps": [0.5, 0.5], "order": None}))
    # explicit lists of orders, in every arrangement (decreasing, with gaps), as list and as numpy array
    for f in ("fast_random_hypergraph", "random_hypergraph"):
        for order, ps in (([2, 1], [1.0, 0.0]), ([2, 1], [0.0, 1.0]), ([1, 2], [1.0, 0.0]), ([3, 1], [1.0, 0.0]), ([1, 3], [0.0, 1.0]),
                          ([3, 1, 2], [1.0, 0.0, 1.0]), ([2, 1], [0.5, 1.0])):
            T.append((f, {"n": 5 if (3 in order and f.startswith("fast")) else 4, "ps": ps, "order": order}))
        T.append((f, {"n": 4, "ps": [1.0, 0.0], "order": [2, 1], "as_array": True}))
    for n, m in ((3, 2), (4, 2), (4, 3)) + (() if q else ((5, 2), (5, 3))):
        for p in (0.0, 0.5, 1.0):
            for multi in (False, True):
                if multi and n ** m > (9 if q else 16):
                    continue
                T.append(("uniform_erdos_renyi_hypergraph", {"n": n, "m": m, "p": p, "p_type": "prob", "multiedges": multi}))
        T.append(("uniform_erdos_renyi_hypergraph", {"n": n, "m": m, "p": 1.0, "p_type": "degree", "multiedges": False}))
    for m, sizes in ((2, [1, 1]), (2, [2, 1]), (2, [2, 2]), (3, [2, 1])) + (() if q else ((3, [2, 2]),)):
        n = sum(sizes)
        for fill in ("half", "zero", "one", "mixed", "sparse"):
            if fill == "half" and sum(sizes) > (2 if q else 3):
                continue
            if fill == "sparse" and m > 2:
                continue
            T.append(("uniform_HSBM", {"n": n, "m": m, "fill": fill, "sizes": sizes}))
    T.append(("uniform_HPPM", {"n": 2, "m": 2, "k": 2, "epsilon": 0.5, "rho": 0.5}))
    T.append(("uniform_HPPM", {"n": 3, "m": 2, "k": 2, "epsilon": 1.0, "rho": 0.5}))
    T.append(("uniform_HPPM", {"n": 4, "m": 2, "k": 2, "epsilon": 1.0, "rho": 0.5}))
    for k, m in (({0: 1, 1: 1, 2: 1, 3: 1}, 2), ({0: 2, 1: 1, 2: 1}, 2), ({0: 2, 1: 2, 2: 1, 3: 1}, 3), ({0: 1, 1: 1, 2: 1}, 3),
                 ({0: 2, 1: 2, 2: 2}, 2), ({0: 1, 1: 1, 2: 1}, 2),
                 # sums that need one and two extra stubs (m - remainder = 1, 2), with a zero-degree node
                 ({0: 0, 1: 1, 2: 1, 3: 1, 4: 1}, 3), ({0: 0, 1: 1, 2: 1}, 3), ({0: 1, 1: 1, 2: 1, 3: 2}, 3)):
        T.append(("uniform_hypergraph_configuration_model", {"k": k, "m": m}))
    T.append(("chung_lu_hypergraph", {"k1": {0: 1, 1: 2, 2: 1}, "k2": {0: 2, 1: 2}}))
    T.append(("chung_lu_hypergraph", {"k1": {0: 3, 1: 3}, "k2": {0: 2, 1: 2, 2: 2}}))
    T.append(("dcsbm_hypergraph", {"k1": {0: 1, 1: 2, 2: 1}, "k2": {0: 2, 1: 2}, "g1": {0: 0, 1: 0, 2: 1}, "g2": {0: 0, 1: 1},
                                   "omega": [[2, 1], [0, 1]]}))
    for p in (0.0, 0.5, 1.0):
        T.append(("watts_strogatz_hypergraph", {"n": 4, "d": 2, "k": 2, "l": 0, "p": p}))
    T.append(("watts_strogatz_hypergraph", {"n": 4, "d": 3, "k": 2, "l": 0, "p": 0.5}))
    for N, ps in ((3, [0.5, 0.5]), (4, [0.5]), (4, [0.0, 1.0]), (4, [1.0, 0.0])) + (() if q else ((4, [0.5, 0.5]),)):
        T.append(("random_simplicial_complex", {"N": N, "ps": ps}))
    for N in (3, 4):
        for mo in (1, 2, 3):
            T.append(("random_flag_complex", {"N": N, "p": 0.5, "max_order": mo}))
        T.append(("random_flag_complex_d2", {"N": N, "p": 0.5}))
    T.append(("flag_complex_ps", {"N": 4, "ps": [0.5, 0.5], "max_order": 3, "graph": "complete"}))
    T.append(("flag_complex_ps", {"N": 4, "ps": [0.5], "max_order": 2, "graph": "complete"}))
    for ps, mo in (([1.0, 0.0], 3), ([0.0, 1.0], 3), ([1.0], 3), ([1.0, 0.5], 3), ([0.5, 1.0], 3), ([1.0, 1.0], 3), ([0.0, 0.0], 3),
                   ([1.0], 2), ([0.0], 2)):
        T.append(("flag_complex_ps", {"N": 4, "ps": ps, "max_order": mo, "graph": "complete"}))
    T.append(("flag_complex_ps", {"N": 5, "ps": [1.0, 0.0], "max_order": 3, "graph": "wheel"}))
    T.append(("flag_complex_d2_p2", {"N": 4, "p2": 0.5, "graph": "complete"}))
    T.append(("shuffle_hyperedges", {"edges": [[0, 1], [1, 2], [0, 1, 2]], "order": 1, "p": 0.5}))
    T.append(("shuffle_hyperedges", {"edges": [[0, 1], [2, 3]], "order": 1, "p": 1.0}))
    return T


def hsbm_p(m, nb, fill):
    p = np.full([nb] * m, {"half": 0.5, "zero": 0.0, "one": 1.0, "mixed": 0.0, "sparse": 0.0}[fill])
    if fill == "mixed":
        p[tuple([0] * m)] = 1.0
        p[tuple([0] * (m - 1) + [nb - 1])] = 0.5
    if fill == "sparse":
        p[tuple([0] * m)] = 0.5
        p[tuple([nb - 1] + [0] * (m - 1))] = 0.5
    return p


def call_and_check(name, P):
    """Returns (callable producing the network, horizon for geometric, per-execution oracle, completeness oracle)."""
    import xgi

    if name in ("fast_random_hypergraph", "random_hypergraph"):
        n = P["n"]
        ps, order = P["ps"], P["order"]
        if order is None:
            orders, plist = [i + 1 for i in range(len(ps))], list(ps)
        elif isinstance(order, (list, tuple)):
            orders, plist = [int(d) for d in order], list(ps)  # the i-th probability belongs to the i-th listed order
            if P.get("as_array"):
                order = np.array(order)
        else:
            orders, plist = [order], [ps]
        f = getattr(xgi, name)
        call = lambda: f(n, ps, order=order, seed=7)  # noqa: E731
        hz = max(math.comb(n, d + 1) for d in orders)

        def oracle(H):
            es = edges_of(H)
            msgs = []
            if list(H.nodes) != list(range(n)):
                msgs.append(f"node set {list(H.nodes)} != range({n})")
            for d, p in zip(orders, plist):
                ed = [e for e in es if len(e) == d + 1]
                if len(ed) != len(set(ed)):
                    msgs.append(f"repeated edge of order {d}: {sorted(map(sorted, ed))}")
                if p == 0 and ed:
                    msgs.append(f"p = 0 for order {d} but edges {sorted(map(sorted, ed))}")
                if p == 1 and set(ed) != {frozenset(c) for c in itertools.combinations(range(n), d + 1)}:
                    msgs.append(f"p = 1 for order {d} but not all {math.comb(n, d + 1)} edges present")
            if any(len(e) - 1 not in orders or not e <= set(range(n)) for e in es):
                msgs.append(f"edge of a size that was not requested: {sorted(map(sorted, es))}")
            return msgs

        expected = 1
        for d, p in zip(orders, plist):
            expected *= (1 << math.comb(n, d + 1)) if 0 < p < 1 else 1
        return call, hz, oracle, expected
    if name == "uniform_erdos_renyi_hypergraph":
        n, m = P["n"], P["m"]
        call = lambda: xgi.uniform_erdos_renyi_hypergraph(n, m, P["p"], p_type=P["p_type"], multiedges=P["multiedges"], seed=7)  # noqa: E731
        hz = n ** m if P["multiedges"] else math.comb(n, m)

        def oracle(H):
            es = edges_of(H)
            msgs = []
            if list(H.nodes) != list(range(n)):
                msgs.append(f"node set {list(H.nodes)} != range({n})")
            if any(len(e) != m or not e <= set(range(n)) for e in es):
                msgs.append(f"edge that is not an {m}-subset of the nodes: {sorted(map(sorted, es))}")
            if not P["multiedges"] and len(es) != len(set(es)):
                msgs.append(f"repeated edge although multiedges=False: {sorted(map(sorted, es))}")
            q = P["p"] if P["p_type"] == "prob" else P["p"] * n / (m * math.comb(n, m))
            if q == 0 and es:
                msgs.append("p = 0 but edges were generated")
            if q == 1 and not P["multiedges"] and set(es) != {frozenset(c) for c in itertools.combinations(range(n), m)}:
                msgs.append("p = 1 but not all edges present")
            if q == 1 and P["multiedges"] and set(es) != {frozenset(c) for c in itertools.combinations(range(n), m)}:
                msgs.append("p = 1 (multiedges) but some m-subset is missing")
            return msgs

        q = P["p"] if P["p_type"] == "prob" else P["p"] * n / (m * math.comb(n, m))
        expected = (1 << math.comb(n, m)) if (0 < q < 1 and not P["multiedges"]) else None
        return call, hz, oracle, expected
    if name in ("uniform_HSBM", "uniform_HPPM"):
        n, m = P["n"], P["m"]
        if name == "uniform_HSBM":
            sizes = P["sizes"]
            p = hsbm_p(m, len(sizes), P["fill"])
            call = lambda: xgi.uniform_HSBM(n, m, p, sizes, seed=7)  # noqa: E731
            hz = int(np.prod([max(sizes)] * m))
        else:
            sizes = [int(P["rho"] * n), n - int(P["rho"] * n)]
            p = None
            call = lambda: xgi.uniform_HPPM(n, m, P["k"], P["epsilon"], rho=P["rho"], seed=7)  # noqa: E731
            hz = int(np.prod([max(sizes)] * m))

        def oracle(H):
            es = edges_of(H)
            msgs = []
            if list(H.nodes) != list(range(n)):
                msgs.append(f"node set {list(H.nodes)} != range({n})")
            if any(len(e) != m or not e <= set(range(n)) for e in es):
                msgs.append(f"edge that is not an {m}-subset of the nodes: {sorted(map(sorted, es))}")
            if p is not None:
                cum = np.cumsum([0] + list(sizes))
                blk = lambda v: int(np.searchsorted(cum, v, side="right") - 1)  # noqa: E731
                for c in itertools.permutations(range(n), m):
                    pb = p[tuple(blk(v) for v in c)]
                    if pb == 1 and frozenset(c) not in set(es):
                        msgs.append(f"block probability 1 but node set {sorted(c)} is missing")
                        break
                for e in set(es):
                    if all(p[tuple(blk(v) for v in c)] == 0 for c in itertools.permutations(sorted(e))):
                        msgs.append(f"edge {sorted(e)} generated although all its block probabilities are 0")
                        break
            return msgs

        return call, hz, oracle, None
    if name == "uniform_hypergraph_configuration_model":
        k, m = dict(P["k"]), P["m"]

        def call():
            kk = dict(k)
            H = xgi.uniform_hypergraph_configuration_model(kk, m, seed=7)
            H._verif_k = kk
            return H

        def oracle(H):
            es = edges_of(H)
            msgs = []
            if list(H.nodes) != list(k):
                msgs.append(f"node set {list(H.nodes)} != {list(k)}")
            if any(len(e) != m or not e <= set(k) for e in es):
                msgs.append(f"edge that is not an {m}-subset of the nodes: {sorted(map(sorted, es))}")
            deg = H.nodes.degree.asdict()
            kk = getattr(H, "_verif_k", k)
            if kk != k:
                msgs.append(f"the degree sequence passed in was modified: {kk} (was {k})")
            # a sequence whose sum is not a multiple of m is documented to be repaired by raising the degree of
            # m - remainder random nodes by one: that is the only excess allowed
            rem = sum(k.values()) % m
            slack = 0 if rem == 0 else 1
            budget = 0 if rem == 0 else m - rem
            over = {v: (deg[v], k[v]) for v in k if deg[v] > k[v] + slack}
            if over or sum(max(0, deg[v] - k[v]) for v in k) > budget:
                msgs.append(f"degrees exceed the prescribed ones (beyond the documented repair of {budget} stubs): "
                            f"{over or {v: (deg[v], k[v]) for v in k if deg[v] > k[v]}}")
            return msgs

        return call, None, oracle, None
    if name in ("chung_lu_hypergraph", "dcsbm_hypergraph"):
        k1, k2 = P["k1"], P["k2"]
        if name == "chung_lu_hypergraph":
            call = lambda: xgi.chung_lu_hypergraph(dict(k1), dict(k2), seed=7)  # noqa: E731
        else:
            call = lambda: xgi.dcsbm_hypergraph(dict(k1), dict(k2), dict(P["g1"]), dict(P["g2"]), np.array(P["omega"]), seed=7)  # noqa: E731

        def oracle(H):
            msgs = []
            if set(H.nodes) != set(k1) or H.num_nodes != len(k1):
                msgs.append(f"node set {list(H.nodes)} != {list(k1)}")
            if not set(H.edges) <= set(k2):
                msgs.append(f"edge IDs {list(H.edges)} not among the prescribed {list(k2)}")
            if any(not e <= set(k1) or not e for e in edges_of(H)):
                msgs.append("edge with a member outside the node set, or empty edge")
            return msgs

        return call, len(k2), oracle, None
    if name == "watts_strogatz_hypergraph":
        n, d = P["n"], P["d"]
        call = lambda: xgi.watts_strogatz_hypergraph(n, d, P["k"], P["l"], P["p"], seed=7)  # noqa: E731

        def oracle(H):
            es = edges_of(H)
            msgs = []
            if set(H.nodes) != set(range(n)):
                msgs.append(f"node set {sorted(H.nodes)} != range({n})")
            if any(len(e) != d or not e <= set(range(n)) for e in es):
                msgs.append(f"edge sizes {sorted(len(e) for e in es)}: the model is {d}-uniform")
            if len(es) != n * (P["k"] // 2):
                msgs.append(f"{len(es)} edges, the ring lattice has {n * (P['k'] // 2)}")
            return msgs

        return call, None, oracle, None
    if name == "random_simplicial_complex":
        N, ps = P["N"], P["ps"]
        call = lambda: xgi.random_simplicial_complex(N, ps, seed=7)  # noqa: E731

        def oracle(S):
            es = edges_of(S)
            msgs = []
            if list(S.nodes) != list(range(N)):
                msgs.append(f"node set {list(S.nodes)} != range({N})")
            if not closed([e for e in es if len(e) >= 2]) or len(es) != len(set(es)):
                msgs.append(f"not a downward-closed duplicate-free complex: {sorted(map(sorted, es))}")
            for i, p in enumerate(ps):
                d = i + 1
                top = [e for e in es if len(e) == d + 1]
                if p == 1 and len(top) != math.comb(N, d + 1):
                    msgs.append(f"p = 1 at order {d} but {len(top)} simplices")
            if any(len(e) > len(ps) + 1 for e in es):
                msgs.append("simplex above the requested maximum order")
            return msgs

        return call, None, oracle, None
    if name in ("random_flag_complex", "random_flag_complex_d2"):
        N = P["N"]
        mo = P.get("max_order", 2)
        if name == "random_flag_complex":
            call = lambda: xgi.random_flag_complex(N, P["p"], max_order=mo, seed=7)  # noqa: E731
        else:
            call = lambda: xgi.random_flag_complex_d2(N, P["p"], seed=7)  # noqa: E731

        def oracle(S):
            es = [e for e in edges_of(S) if len(e) >= 2]
            msgs = []
            if set(S.nodes) != set(range(N)):
                msgs.append(f"node set {sorted(S.nodes)} != range({N})")
            G = nx.Graph()
            G.add_nodes_from(range(N))
            G.add_edges_from(tuple(e) for e in es if len(e) == 2)
            want = cliques_upto(G, mo + 1)
            if set(es) != want or len(es) != len(set(es)):
                msgs.append(f"simplices {sorted(map(sorted, es))} are not exactly the cliques up to order {mo} of the 1-skeleton")
            return msgs

        return call, None, oracle, 1 << math.comb(N, 2)
    if name in ("flag_complex_ps", "flag_complex_d2_p2"):
        N = P["N"]
        G = nx.complete_graph(N) if P.get("graph", "complete") == "complete" else nx.wheel_graph(N)
        if name == "flag_complex_ps":
            mo = P["max_order"]
            call = lambda: xgi.flag_complex(G, max_order=mo, ps=P["ps"], seed=7)  # noqa: E731
        else:
            mo = 2
            call = lambda: xgi.flag_complex_d2(G, p2=P["p2"], seed=7)  # noqa: E731

        def oracle(S):
            es = [e for e in edges_of(S) if len(e) >= 2]
            msgs = []
            if set(S.nodes) != set(range(N)):
                msgs.append("node set differs from the graph's")
            if {e for e in es if len(e) == 2} != {frozenset(e) for e in G.edges}:
                msgs.append("the graph's edges are not exactly the 1-simplices")
            if not closed(es) or len(es) != len(set(es)) or any(len(e) > mo + 1 for e in es):
                msgs.append(f"not a downward-closed complex within max_order {mo}: {sorted(map(sorted, es))}")
            if not set(es) <= cliques_upto(G, mo + 1):
                msgs.append("a simplex is not a clique of the graph")
            if name == "flag_complex_ps":
                # orders with probability 1 contain every clique of that size; with probability 0 only faces of larger ones
                for i, p in enumerate(P["ps"][:mo - 1]):
                    size = i + 3
                    cl = {c for c in cliques_upto(G, size) if len(c) == size}
                    have = {e for e in es if len(e) == size}
                    if p == 1 and have != cl:
                        msgs.append(f"probability 1 for simplices of {size} nodes but {sorted(map(sorted, cl - have))} are missing")
                    if p == 0 and any(not any(e < o for o in es) for e in have):
                        msgs.append(f"probability 0 for simplices of {size} nodes but some are present without being a face")
            return msgs

        return call, None, oracle, None
    if name == "shuffle_hyperedges":
        base = xgi.Hypergraph(P["edges"])
        order = P["order"]
        call = lambda: xgi.shuffle_hyperedges(base, order, P["p"], seed=7)  # noqa: E731
        sizes0 = sorted(len(e) for e in edges_of(base))
        other0 = sorted(sorted(e) for e in edges_of(base) if len(e) != order + 1)

        def oracle(H):
            es = edges_of(H)
            msgs = []
            if list(H.nodes) != list(base.nodes):
                msgs.append("node set changed")
            if sorted(len(e) for e in es) != sizes0:
                msgs.append(f"edge sizes {sorted(len(e) for e in es)} != {sizes0}")
            if sorted(sorted(e) for e in es if len(e) != order + 1) != other0:
                msgs.append("edges of other orders were altered")
            if any(not e <= set(base.nodes) for e in es):
                msgs.append("edge with a node outside the network")
            return msgs

        return call, None, oracle, None
    raise KeyError(name)


def task_randomized(task):
    name, P = task
    max_execs = MAX_EXECS if _TIER == "quick" else 20 * MAX_EXECS
    with warnings.catch_warnings():
        warnings.simplefilter("ignore")
        call, hz, oracle, expected = call_and_check(name, P)
        outcomes = set()
        viols = []
        n = 0
        capped = False
        raised = {}

        def run(ch):
            with CH.own_rng(ch, horizon=hz):
                try:
                    return ("ok", call())
                except CH.Divergence:
                    raise
                except CH.TooManyChoices:
                    raise
                except Exception as e:  # noqa: BLE001
                    return ("raise", e)

        try:
            for trace, (kind, res) in CH.explore(run, max_execs=max_execs):
                n += 1
                choices = [c for _, c, _ in trace]
                if kind == "raise":
                    key = type(res).__name__
                    raised[key] = raised.get(key, 0) + 1
                    if len(viols) < 3:
                        viols.append(("generator-raises", f"{name}({P}) raised {type(res).__name__}: {res}", choices))
                    continue
                outcomes.add(outcome(res))
                msgs = oracle(res)
                if msgs and len(viols) < 3:
                    viols.append(("structure", f"{name}({P}): " + "; ".join(msgs), choices))
        except CH.TooManyChoices:
            capped = True
        if expected is not None and not capped and not viols and len(outcomes) != expected:
            viols.append(("outcome-space", f"{name}({P}): {len(outcomes)} distinct outcomes over all {n} outcome sequences of the "
                          f"random source, expected {expected} (every subset of the candidate edges must be reachable, none "
                          f"twice)", []))
    return {"task": [name, P], "n": n, "outcomes": len(outcomes), "viols": viols, "capped": capped}


def replay_randomized(name, P, choices):
    call, hz, oracle, _ = call_and_check(name, P)
    ch = CH.Chooser(choices)
    with warnings.catch_warnings():
        warnings.simplefilter("ignore")
        with CH.own_rng(ch, horizon=hz):
            try:
                H = call()
            except (CH.Divergence, CH.TooManyChoices):
                raise
            except Exception as e:  # noqa: BLE001
                return [f"{name}({P}) raised {type(e).__name__}: {e}"]
    return oracle(H)


# ---------------------------------------------------------------------------------------------------------------
# D. secondary pass: real random sources, larger parameters, a seed menu (not what the claim rests on)


def task_seeds(seed):
    import xgi

    viols = []
    n = 0
    with warnings.catch_warnings():
        warnings.simplefilter("ignore")
        cases = [
            ("fast_random_hypergraph", {"n": 8, "ps": [0.3, 0.2, 0.1], "order": None}),
            ("random_hypergraph", {"n": 7, "ps": [0.3, 0.2], "order": None}),
            ("uniform_erdos_renyi_hypergraph", {"n": 8, "m": 3, "p": 0.3, "p_type": "prob", "multiedges": False}),
            ("uniform_erdos_renyi_hypergraph", {"n": 6, "m": 2, "p": 1.0, "p_type": "prob", "multiedges": True}),
            ("uniform_HSBM", {"n": 8, "m": 2, "fill": "mixed", "sizes": [4, 4]}),
            ("uniform_HPPM", {"n": 8, "m": 2, "k": 3, "epsilon": 0.8, "rho": 0.5}),
            ("uniform_hypergraph_configuration_model", {"k": {i: 2 for i in range(9)}, "m": 3}),
            ("chung_lu_hypergraph", {"k1": {i: 2 for i in range(6)}, "k2": {i: 3 for i in range(4)}}),
            ("watts_strogatz_hypergraph", {"n": 10, "d": 3, "k": 4, "l": 1, "p": 0.5}),
            ("random_simplicial_complex", {"N": 7, "ps": [0.4, 0.3, 0.2]}),
            ("random_flag_complex", {"N": 7, "p": 0.5, "max_order": 3}),
            ("random_flag_complex_d2", {"N": 7, "p": 0.5}),
            ("shuffle_hyperedges", {"edges": [[0, 1], [1, 2], [2, 3], [0, 1, 2], [3, 4, 5]], "order": 1, "p": 0.7}),
        ]
        import random

        for name, P in cases:
            call, hz, oracle, _ = call_and_check(name, P)
            random.seed(seed)
            np.random.seed(seed % (2 ** 32))
            n += 1
            try:
                H = call()
                msgs = oracle(H)
            except Exception as e:  # noqa: BLE001
                msgs = [f"raised {type(e).__name__}: {e}"]
            if msgs:
                viols.append(("structure-seeded", f"{name}({P}) with the global generators seeded {seed}: " + "; ".join(msgs),
                              {"name": name, "P": P, "seed": seed}))
    return {"n": n, "viols": viols[:3]}


_TIER = "quick"


def run(tier, ev):
    global _TIER
    _TIER = tier
    q = tier == "quick"
    viols = []
    ev.cov["rule"] = ("index decodings exhaustively; deterministic generators over parameter grids (flag complexes on every graph "
                      "with <= 4 (thorough 5) vertices); randomized generators under every complete outcome sequence of the owned "
                      "random sources (geometric skips 1..K, threshold draws {below, above}, all ordered samples, all boolean "
                      "masks, all graphs on N vertices) for small parameter tuples; a case is one execution; "
                      "distinct_nontrivial = distinct generated networks")
    # A
    resA = explore.parallel_map(task_decodings, [("comb", 7 if q else 9), ("prod", 4 if q else 5), ("partition", 3)], env.nproc(), chunk=1)
    nA = 0
    for r in resA:
        nA += r["n"]
        if r.get("skipped"):
            ev.cov["not_exercised"].append(r["skipped"])
        for mon, msg, params in r["viols"]:
            viols.append(Violation(PROP, mon, msg, {"check": "c16", "kind": "decoding", "params": params}, {"gen": "decoding"}))
    ev.part("index-decodings", indices_checked=nA)
    # B
    resB = explore.parallel_map(task_deterministic, [("complete", 5 if q else 6), ("lattice", 8 if q else 10), ("simple",),
                                                    ("flag", 3), ("flag", 4)] + ([] if q else [("flag", 5)]), env.nproc(), chunk=1)
    nB = 0
    for r in resB:
        nB += r["n"]
        for mon, msg, params in r["viols"]:
            viols.append(Violation(PROP, mon, msg, {"check": "c16", "kind": "deterministic", "params": params},
                                   {"gen": params.get("gen", "?")}))
    ev.part("deterministic-grids", calls=nB)
    # C
    tasks = make_tasks(tier)
    resC = explore.parallel_map(task_randomized, tasks, env.nproc(), chunk=1)
    nC = outC = 0
    for r in resC:
        nC += r["n"]
        outC += r["outcomes"]
        name, P = r["task"]
        ev.cov["parts"].setdefault("randomized", {})[f"{name}{_short(P)}"] = {"executions": r["n"], "distinct_outcomes": r["outcomes"]}
        if r["capped"]:
            ev.cap(f"{name}({P}): more than {MAX_EXECS if q else 20 * MAX_EXECS} outcome sequences; explored that many depth-first")
        for mon, msg, choices in r["viols"]:
            viols.append(Violation(PROP, mon, msg, {"check": "c16", "kind": "randomized", "name": name, "P": P, "choices": choices},
                                   {"gen": name}))
    # D
    seeds = [0, 1, 2, 42, 2 ** 31 - 1, env.seed()]
    resD = explore.parallel_map(task_seeds, seeds, env.nproc(), chunk=1)
    nD = 0
    for r in resD:
        nD += r["n"]
        for mon, msg, det in r["viols"]:
            viols.append(Violation(PROP, mon, msg, {"check": "c16", "kind": "seeded", "detail": det}, {"gen": det["name"]}))
    ev.part("secondary-seeded-pass", calls=nD, seeds=seeds, note="real random sources, larger parameters; not exhaustive")
    ev.add(states=outC + nB, transitions=nA + nB + nC + nD, evaluations=nA + nB + nC + nD, distinct_nontrivial=outC)
    ev.sample({"generator": "fast_random_hypergraph", "params": {"n": 4, "ps": 0.5, "order": 1},
               "choice_sequence": [2, 0, 3], "meaning": "geometric skips 3, 1, 4 -> edges with linear index 2 and 3"})
    ev.assumptions += ["random.random() is used only in threshold tests, so two representative values cover its behaviours",
                       "small-scope hypothesis on the parameter tuples"]
    return viols


def _short(P):
    s = ",".join(f"{k}={v}" for k, v in P.items())
    return "(" + (s if len(s) < 70 else s[:67] + "...") + ")"


def replay(case):
    k = case["kind"]
    if k == "randomized":
        if not case["choices"]:
            r = task_randomized((case["name"], case["P"]))
            return [f"{m}: {msg}" for m, msg, _ in r["viols"]]
        return replay_randomized(case["name"], case["P"], case["choices"])
    if k == "decoding":
        p = case["params"]
        r = task_decodings((p["fn"], {"comb": 9, "prod": 5, "partition": 3}[p["fn"]]))
        return [msg for _, msg, _ in r["viols"]]
    if k == "deterministic":
        g = case["params"].get("gen")
        arg = {"complete_hypergraph": ("complete", 6), "trivial_hypergraph": ("complete", 6), "ring_lattice": ("lattice", 10),
               "star_clique": ("simple",), "sunflower": ("simple",), "flag_complex": ("flag", case["params"].get("N", 4)),
               "flag_complex_d2": ("flag", case["params"].get("N", 4))}.get(g, ("complete", 5))
        r = task_deterministic(arg)
        return [msg for _, msg, pp in r["viols"] if pp.get("gen") == g]
    if k == "seeded":
        r = task_seeds(case["detail"]["seed"])
        return [msg for _, msg, d in r["viols"] if d["name"] == case["detail"]["name"]]
    return []
