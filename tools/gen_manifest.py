#!/venv/bin/python
"""Regenerates /verif/MANIFEST.json from the table below (keeps it schema-valid at all times)."""
import json
import os

V = os.path.dirname(os.path.dirname(os.path.abspath(__file__)))

CHECKS = {
    "C01": ("explicit-state BFS over edit histories of the real Hypergraph, incidence invariant on every state",
            "Every history of Hypergraph mutators and in-place helpers (about 170 concrete calls incl. deviant ones, plus state-dependent swap/shuffle/member-removal menus with every RNG outcome) up to the depth bound from 6 initial states is executed on the real class; the two-way incidence / attribute-record invariant is evaluated on every distinct reachable state, after returned and raised calls alike.",
            "bounded: 3 node labels, 6 explicit edge IDs, depth 3 (quick) / 4 (thorough), at most 1 / 2 state-changing raising calls per history; small-scope hypothesis beyond"),
    "C02": ("explicit-state BFS over edit histories of the real DiHypergraph, directed incidence invariant on every state",
            "Every history of DiHypergraph mutators (about 120 concrete calls incl. deviant ones) up to the depth bound from 4 initial states is executed on the real class; tail/out and head/in consistency, dangling IDs, attribute records and the directed degree/size statistics are checked on every distinct reachable state.",
            "bounded: 3 node labels, 6 explicit edge IDs, depth 3 / 4, deviation bound 1 / 2"),
    "C03": ("explicit-state BFS over edit histories of the real SimplicialComplex, closure invariants on states and removal/max_order relations on transitions",
            "Every history of SimplicialComplex's own mutators (five bulk formats x max_order, explicit/automatic IDs, removals by ID with state-dependent menus, node removal, close, cleanup, deprecated aliases, deviant calls) up to the depth bound is executed on the real class; downward closure, uniqueness, non-emptiness, incidence and has_simplex exactness (all subsets x 4 argument types) on every distinct state; step relations on every transition.",
            "bounded: 5 node labels, depth 3 / 4, deviation bound 1 / 2"),
    "C04": ("explicit-state BFS over addition/removal histories from every provenance, freshness step relation on every transition",
            "For each class, an ID-focused alphabet (automatic IDs, explicit IDs 0/1/2/5/-1/2.0/'e', decreasing and repeated IDs in bulk calls, add_node_to_edge, removals, merge with rename='new', clear) is explored breadth-first from every provenance as initial state (about 110 ways of obtaining a network: constructor input types, from_* converters, read_* functions on files in a scratch directory, generators, copy, pickle, relabelling, derived networks); on every transition: no pre-existing edge altered or removed, number of new IDs as expected, automatic IDs are integers, an existing explicit ID is refused with a warning and no change.",
            "bounded: depth 3 / 4 from each provenance, ID menu as listed; provenances whose constructor raises on this tree are listed under not_exercised"),
    "C05": ("explicit-state BFS over the full mutator alphabets with step-by-step refinement check against executable reference models; choice-point enumeration of the random source for random_edge_shuffle",
            "On every transition of the C01/C02/C03 alphabets (all bulk formats, attribute precedence cases, weak/strong removal, remove_empty, merge rename x rule, clear, update, setters, swaps over state-dependent argument menus, random_edge_shuffle under every outcome of the owned random source) a reference model transcribed from the docstrings is loaded from the pre-state, executes the same call, and the full observable post-state (nodes, edges, members/tail+head, node/edge/network attributes) is compared; automatic IDs are adopted and checked for freshness; rejected edits with a missing/invalid ID must raise XGIError or IDNotFound; swaps/shuffles preserve degrees, sizes, IDs, attributes, untouched edges and shared nodes.",
            "the reference models (xmc/refmodel.py) are trusted transcriptions; inputs the documentation leaves undefined are classified UNSPEC and not judged; depth 3 / 4"),
    "C06": ("explicit-state BFS over structural histories; every reachable state is an input to definitional oracles, with views/stats held across the whole history",
            "Every canonical state of the three classes reached by a structural alphabet (depth 2 quick / 3 thorough, 6+4+4 initial states) is checked: a twin rebuilt with node/edge views, degree/size stats and a multi-stat created at the initial state and held across all mutations must report the current structure; survivors keep insertion order; degree/size/order (with order=, degree=, weight=), directed in/out/degree and head/tail sizes equal counts over the incidence; asdict/aslist/asnumpy/aspandas/multi (all layouts) agree and follow view order; filterby (7 modes + callable + stat object) and filterby_attr (missing=) on full and filtered views; neighbors (s=1,2), lookup over all subsets, duplicates, isolates, singletons, empty, maximal (strict and not) against set definitions.",
            "bounded depth; numeric equality to 1e-9; tuple edge IDs (merge rename='tuple') exempt from the pandas index comparison because pandas turns them into a MultiIndex"),
    "C07": ("explicit-state BFS over attributed histories; differential oracle between every reachable state and its copy / pickle / constructor twin under an edit menu applied to either side",
            "Every canonical state of the three classes reached by attributed alphabets (nested list/dict attribute values, non-monotone explicit IDs, empty edges, isolated nodes; depth 2 quick / 3 thorough) gets three twins (copy(), pickle round trip, constructor of its own class); twin == source; each edit of a 12-24 entry menu applied to the twin leaves the source's complete instance state unchanged and vice versa; nested attribute values reached through copy() are mutated in place on either side without affecting the other; an automatic addition on each side adds a fresh ID without altering existing edges.",
            "constructor/pickle twins judged on structural edits only; bounded depth and edit menu"),
    "C08": ("exhaustive enumeration of programs (introspected API surface) x synthesised argument grids x input family; before/after comparison of the complete instance state",
            "Every public callable of the xgi namespace whose first parameter is a network (105 today, found by introspection, so new functions are included automatically), the class converters, read-only methods, every view method and set operation, and every statistic of the four stats modules with every output method is called on each network of a family of 40 (quick) / 80+ (thorough) structurally diverse inputs of the three classes with up to 12 argument combinations from a name-driven synthesiser (in_place always False); the complete instance state (ordered IDs, members in iteration order, attributes, next automatic ID, frozen flag) must be identical before and after whether the call returns or raises; sets handed out by the call are modified first, so an internal set returned without copying is caught.",
            "argument combinations capped per function (reported); functions that succeed on no input are listed under not_exercised and not counted as covered; update_uid_counter excluded as documented in-place helper"),
    "C09": ("exhaustive enumeration of small hypergraphs x relabelling / insertion-order grid; metamorphic comparison f(relabel(H)) == relabel(f(H)) on every case",
            "All hypergraphs over 3 labels with <=3 edges and 4 labels with <=2 edges (thorough: 4 labels/<=3 edges, 5 labels/<=2 edges; multi-edges, singletons, isolated nodes) x all node permutations, integer shift, string labels; all permutations of edge IDs 0..m-1, gapped IDs, string IDs; all edge insertion orders, reversed node insertion, reversed member order, and a combined relabelling; about 70 observables (degree/size stats, neighbour averages, three clustering coefficients as functions and stats, components, path lengths, densities, exact assortativities on uniform inputs, five simpliciality measures, maximal, duplicate classes, Katz centrality, all matrices through their index maps, line graph, projection) compared after transport through the relabelling.",
            "numeric tolerance 1e-9; observables raising on both sides are not compared; small-scope hypothesis"),
    "C10": ("exhaustive enumeration of small networks of the three classes x every converter pair; incidence-set / full-network equality on every case",
            "All hypergraphs over 3 labels <=3 edges and 4 labels <=2 edges in three ID/attribute decorations (automatic, string, gapped decreasing IDs; nested attribute values; network attributes), with empty edges and string node labels; all directed hypergraphs over 3 labels with <=2 edges; every simplicial complex on <=4 vertices; each through hyperedge list, hyperedge dict, bipartite edge list, labelled and positional incidence matrix (sparse/dense), bipartite graph with index maps, two-column dataframe, standard dict with casts, HIF dict, and the class-to-class constructors; from_bipartite_graph additionally on every bipartite graph with 3+2 vertices x all 120 vertex insertion orders x 3 link orientations x dual.",
            "label types int/str; list-like representations judged without empty edges"),
    "C11": ("exhaustive enumeration of small networks x file formats x delimiters; write/read round trip on real files in a scratch directory",
            "Enumerated networks of the three classes (same families as C10, JSON-representable labels and attribute values, isolated nodes, empty edges, 1xm and nx1 incidence matrices) are written with write_hif / write_json / write_edgelist / write_bipartite_edgelist / write_incidence_matrix and read back under the documented casts with 6 delimiters (5 for the numpy-based matrix format), plus dual=True and HIF/JSON collections as list and dict; HIF/JSON compared as full networks (class, isolated nodes, empty edges, attributes), text formats by incidences.",
            "files live in a per-run temporary directory that is removed; multi-character delimiters are outside numpy.loadtxt's contract for the matrix format"),
    "C12": ("exhaustive enumeration of small hypergraphs x full option grid; entry-by-entry comparison with brute-force matrices through the returned index maps",
            "All hypergraphs over 3 labels <=3 edges and 4 labels <=2 edges (thorough: 4/<=3 and 5/2), each also with non-positional labels (string nodes inserted in reverse, decreasing gapped edge IDs) and edge weights {absent, all 1, in (0,1], some >1} x order {None,0,1,2,3} x s {1,2,3} x weighted x sparse x index x rescale_per_node x 4 order/weight lists: incidence, adjacency, degree vector, intersection profile, clique-motif matrix, adjacency tensor, order-d / multi-order / normalised Laplacians compared with brute-force constructions from members(); sparse == dense, index=True == index=False; zero row sums, symmetry, PSD. One known finding (D13, weighted normalised Laplacian with non-unit weights) is reported as KNOWN-FINDING.",
            "float tolerance 1e-9; normalised Laplacian judged without isolated nodes / empty edges; empty index maps accepted only with all-zero matrices"),
    "C13": ("exhaustive enumeration of all simplicial complexes on <=4 (thorough: 5) vertices x label kinds x orientation assignments; algebraic identities checked on every case",
            "Every simplicial complex on <=4 labelled vertices (thorough adds all complexes using a 5th vertex) x label kinds (ints, strings, mixed int/str, explicit int and string simplex IDs for every simplex, reversed insertion) x orientation assignments (None, all 2^k when the complex has k <= 8 (thorough 10) oriented simplices, otherwise all-0 / all-1 / parity / single flips) x every order 0..dim+1: each column of B_k has exactly k+1 entries of absolute value 1 at the rows of its faces, B_k B_{k+1} = 0 exactly, shapes and index maps chain, Hodge Laplacians symmetric PSD and equal to B_k^T B_k + B_{k+1} B_{k+1}^T, dim ker L_0 = number of components (independent union-find).",
            "matrices are integer-valued floats, products compared exactly"),
    "C14": ("exhaustive enumeration of small hypergraphs x option grid; differential comparison with networkx on oracle-built graphs",
            "All hypergraphs over 3 labels <=3 edges and 4 labels <=2 edges (thorough adds 4/<=3, 5/2, and 6 labels with 3 edges), a third also with string labels and reversed insertion, some with an empty edge, plus paths, cycles, nested edges and directed hypergraphs: components vs the node-edge bipartite graph, is_connected / count / largest / node component, shortest path lengths vs BFS in the clique expansion (symmetric, inf across components), clustering_coefficient vs nx.clustering of the projection, to_graph, to_line_graph (s in {1,2,3} x weights), to_bipartite_graph (types, links, direction, index maps), to_encapsulation_dag ('all', 'immediate' exact; 'empirical' sub-DAG).",
            "networkx is the trusted independent oracle"),
    "C15": ("exhaustive enumeration of all simple hypergraphs over 4 labels (<=3 / <=4 edges) and 5 labels; comparison with brute-force subset enumeration",
            "All hypergraphs without repeated edges over 4 labels with <=3 (thorough <=4) edges and over 5 labels with 2 (thorough <=3) edges, a quarter also with string labels x min_size {1,2,3} x exclude_min_size x normalize: simplicial_edit_distance, simplicial_fraction, mean_face_edit_distance and the three scores against exhaustive enumeration over subsets of maximal edges; scores in [0,1] or NaN; the closure of every enumerated hypergraph as downward-closed input scores 1 or NaN.",
            "labels orderable within one hypergraph"),
    "C16": ("choice-point enumeration: randomized generators run under every complete outcome sequence of the owned random sources; deterministic generators over parameter grids; index decodings exhaustively",
            "The harness owns random, numpy.random, geometric and networkx.fast_gnp_random_graph; for small parameter tuples every complete outcome sequence is executed (stateless DFS with prefix replay and divergence detection): fast_/random_hypergraph, uniform_erdos_renyi (both p_type, multiedges), uniform_HSBM/HPPM, configuration model, chung_lu, dcsbm, watts_strogatz, random_simplicial_complex, random flag complexes (all graphs on N<=4), flag_complex(ps), shuffle_hyperedges: node set, edge sizes, no repeats where forbidden, p=0 none / p=1 all, degrees not exceeded, downward closure, and the set of distinct outcomes equals the whole power set where the model makes every subset reachable. Deterministic generators over grids (complete, trivial, empty, ring_lattice, star_clique, sunflower under a 5 s alarm, flag_complex(_d2) on every graph with <=4 (thorough 5) vertices); index decodings for all n<=7 (9). A secondary pass with real seeds on larger parameters is reported separately.",
            "random.random() is used only in threshold tests (two representative values); parameter tuples are small; seed pass is sampling and not what the claim rests on"),
    "C17": ("exhaustive enumeration of seeded functions x parameter grid x seed menu x all perturbation sequences up to a length bound between two calls",
            "Every public callable with a seed parameter (21, found by introspection) x parameter tuples x seeds {0, 42, 2^31-1, VERIF_SEED} (thorough: +1, 2) x pre-states x every sequence of length <=1 (thorough <=2) over 9 perturbations (draws from and re-seeding of the global Python / NumPy generators, other seeded xgi calls, the same function with another seed, a default_rng draw): the second result must equal the first exactly.",
            "seed values are a menu; single process, single thread"),
    "C18": ("explicit-state BFS over structural histories; at every state the whole introspected call menu is probed on an unfrozen copy and replayed on the frozen network",
            "At every canonical state (depth 1 quick / 2 thorough from 14 initial states) frozen by freeze() and - for hypergraphs and complexes - produced by subhypergraph(), every call of the menu (all public methods by introspection with the C01-C03 argument menus, generic argument tuples for methods the menus do not mention, in-place library functions) is first applied to an unfrozen copy; a call that changes nodes, edges or memberships there must raise XGIError on the frozen network and leave its observable state unchanged; is_frozen before/after; copy() of a frozen network is equal and unfrozen.",
            "mutators are discovered by probing, no list is kept; the automatic-ID counter is not part of the observable state"),
    "C19": ("exhaustive enumeration of small networks x all flag combinations / node and edge selections / orders; comparison with brute-force constructions",
            "All hypergraphs over 3 labels <=3 edges and 4 labels <=2 edges (thorough 4/<=3) with int, string and shuffled-int labels, attributes, a pre-existing 'label' attribute and empty edges: cleanup x 2^5 flags x in_place against the documented pipeline (any largest component / any duplicate representative accepted, un-relabelled through the recorded labels) plus the promised guarantees; convert_labels_to_integers; subhypergraph x every node subset x every edge subset x keep_isolates; dual and dual.dual; complement; cut_to_order x every order; largest_connected_hypergraph x in_place; H1 << H2 over 196 pairs; every simplicial complex on <=4 vertices x 2^3 cleanup flags, k_skeleton, from_max_simplices; directed hypergraphs x 2^2 cleanup flags.",
            "cleanup(connected=True) with an empty residue is outside the domain"),
    "C20": ("enumeration of small networks x layout functions and options x draw functions x max_order x hull x style-argument shapes; geometry of the returned matplotlib collections compared with the network",
            "Hypergraphs (26 representatives and a stride through all hypergraphs over 4 labels with <=3 edges; int, string, shuffled labels) and the simplicial complexes on <=4 vertices: every layout function with its options returns exactly one finite 2-vector per node (bipartite layout also per edge), edge_positions_from_barycenters = mean; draw / draw_nodes / draw_hyperedges / draw_simplices on the Agg backend x max_order {None,1,2,3} x hull x style arguments as scalar / list / dict / stat: marker offsets = positions in node order, one segment per two-node edge, one polygon per larger edge up to max_order with exactly its members' positions; for complexes the maximal simplices of the truncated complex and its two-node simplices.",
            "collections handed to matplotlib are checked, not pixels; quick tier strides through the families"),
}

NOT_APPLICABLE = []


SUFFIX = (" As built (DESIGN.md 9): the enumerated alphabets / input families also vary label and ID *types* (float, tuple, "
          "bytes, frozenset, numpy scalars, mixed, hash-colliding, falsy; NaN in-process), argument container types, attribute "
          "names, presentations (insertion and adjacency orders, MultiGraph), numeric extremes (counts above 127, probabilities "
          "0 / 1 / tiny, IDs at the edge of their type) and inputs with two-digit positions; E2 checks re-evaluate the same object "
          "after in-place detour / morph / rename / grow stages; E1 histories may continue on copies and other twins.")


def main():
    checks = []
    for pid in sorted(CHECKS):
        tech, text, note = CHECKS[pid]
        checks.append({
            "property_id": pid,
            "quick_cmd": f"/venv/bin/python /verif/run check {pid} --tier quick",
            "thorough_cmd": f"/venv/bin/python /verif/run check {pid} --tier thorough",
            "evidence_file": f"/verif/evidence/{pid}.json",
            "replay_cmd_template": "/venv/bin/python /verif/run replay {path}",
            "engine": "xmc",
            "level_claimed": {"category": "model_checking", "text": text + SUFFIX, "design_ref": f"DESIGN.md section 5 {pid} and section 9 (as built)"},
            "level_note": note,
            "technique": tech,
        })
    props = [json.loads(l)["id"] for l in open(os.path.join(V, "properties.jsonl"))]
    na = list(NOT_APPLICABLE)
    for p in props:
        if p not in CHECKS and not any(x["property_id"] == p for x in na):
            na.append({"property_id": p, "reason": "check not built yet (work in progress; planned as bounded exhaustive exploration, see DESIGN.md section 5)"})
    man = {
        "version": 1,
        "setup_cmd": "/venv/bin/python /verif/run selftest",
        "hooks": {
            "guard": "XGI_VERIF",
            "enable": "no source hooks are needed: every seam (random sources, graph sampler, file system) is reached by assigning into module namespaces at run time; checks import /repo's working tree directly (xgi is an editable install), so nothing is built",
            "baseline_off_cmd": "cd /repo && /venv/bin/python -m pytest -ra -q -p no:cacheprovider --timeout=900 --continue-on-collection-errors",
            "source_commits": [],
            "add_only": True,
        },
        "engines": [{
            "name": "xmc", "path": "/verif/xmc", "serves_properties": sorted(CHECKS),
            "kind_free_text": "hand-written explicit-state explorer for Python: level-synchronous parallel BFS over operation histories of the real classes with canonical-state de-duplication and deviation bounding; stateless choice-point DFS that owns the random sources; reachable-state families as exhaustive input spaces; reference models and brute-force oracles",
        }],
        "checks": checks,
        "not_applicable": na,
        "notes": "All checks run with /venv/bin/python against the working tree under /repo (VERIF_REPO overrides it only for the author's own mutation experiments). Known findings: /verif/known_findings.json. Seeded property-breaking changes: /verif/seeded/.",
    }
    with open(os.path.join(V, "MANIFEST.json"), "w") as f:
        json.dump(man, f, indent=1)
    print("MANIFEST.json written:", len(checks), "checks,", len(na), "not_applicable")


if __name__ == "__main__":
    main()
