#!/venv/bin/python
"""Re-run every stored seeded change against the checks recorded as catching it (quick tier) and report misses.
Each seed is applied to a scratch export of /repo HEAD (never to /repo), checked through VERIF_REPO, and removed."""
import json
import os
import shutil
import subprocess
import sys

V = "/verif"
only = sys.argv[1:]
rows = []
for sid in sorted(os.listdir(os.path.join(V, "seeded"))):
    if only and sid not in only:
        continue
    d = os.path.join(V, "seeded", sid)
    meta = json.load(open(os.path.join(d, "meta.json")))
    S = f"/root/scratch-reg-{sid}"
    shutil.rmtree(S, ignore_errors=True)
    os.makedirs(S)
    subprocess.run(f"git -C /repo archive HEAD | tar -x -C {S} && cd {S} && git init -q . && git apply --whitespace=nowarn {d}/patch.diff",
                   shell=True, check=False, capture_output=True)
    demo = subprocess.run(["/venv/bin/python", os.path.join(d, "demo.py"), S], capture_output=True).returncode
    res = {}
    for c in meta["caught_by"]:
        p = subprocess.run(["/venv/bin/python", os.path.join(V, "run"), "check", c, "--tier", "quick"],
                           env=dict(os.environ, VERIF_REPO=S), capture_output=True, text=True)
        res[c] = p.returncode
    shutil.rmtree(S, ignore_errors=True)
    ok = demo != 0 and all(v == 1 for v in res.values())
    rows.append((sid, demo, res, ok))
    print(f"{sid:10s} demo_exit={demo} checks={res} {'OK' if ok else 'PROBLEM'}", flush=True)
bad = [r for r in rows if not r[3]]
print(f"{len(rows)} seeds, {len(bad)} problems")
sys.exit(1 if bad else 0)
