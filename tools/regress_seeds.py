#!/venv/bin/python
"""Re-run every stored seeded change against the checks recorded as catching it (quick tier) and report misses.
Each seed is applied to a scratch export of /repo HEAD (never to /repo), checked through VERIF_REPO, and removed."""
import json
import os
import shutil
import subprocess
import sys

V = "/verif"
only = sys.argv[1:]
rows = []
for sid in sorted(os.listdir(os.path.join(V, "seeded"))):
    if only and sid not in only:
        continue
    d = os.path.join(V, "seeded", sid)
    meta = json.load(open(os.path.join(d, "meta.json")))
    S = f"/root/scratch-reg-{sid}"
    shutil.rmtree(S, ignore_errors=True)
    os.makedirs(S)
    r = subprocess.run(f"git -C /repo archive HEAD | tar -x -C {S} && cd {S} && git init -q . && "
                       f"(git apply --whitespace=nowarn {d}/patch.diff || patch -p1 -F3 -s --no-backup-if-mismatch < {d}/patch.diff)",
                       shell=True, check=False, capture_output=True, text=True)
    if r.returncode != 0:
        print(f"{sid:10s} PATCH DOES NOT APPLY to the current HEAD: {r.stderr.strip()[:200]}", flush=True)
        rows.append((sid, None, {}, False))
        shutil.rmtree(S, ignore_errors=True)
        continue
    demo = subprocess.run(["/venv/bin/python", os.path.join(d, "demo.py"), S], capture_output=True).returncode
    res = {}
    for c in meta["caught_by"]:
        p = subprocess.run(["/venv/bin/python", os.path.join(V, "run"), "check", c, "--tier", "quick"],
                           env=dict(os.environ, VERIF_REPO=S), capture_output=True, text=True)
        res[c] = p.returncode
        if p.returncode == 1:
            files = [l.split("replay=")[1].strip() for l in p.stdout.splitlines() if l.startswith("VIOLATION")]
            if files:
                r1 = subprocess.run(["/venv/bin/python", os.path.join(V, "run"), "replay", files[0]],
                                    env=dict(os.environ, VERIF_REPO=S), capture_output=True, text=True).returncode
                r0 = subprocess.run(["/venv/bin/python", os.path.join(V, "run"), "replay", files[0]], capture_output=True,
                                    text=True).returncode
                res[c + ":replay(mutant,repo)"] = (r1, r0)
    shutil.rmtree(S, ignore_errors=True)
    ok = demo != 0 and all((v == 1 if not isinstance(v, tuple) else v == (1, 0)) for v in res.values())
    rows.append((sid, demo, res, ok))
    print(f"{sid:10s} demo_exit={demo} checks={res} {'OK' if ok else 'PROBLEM'}", flush=True)
bad = [r for r in rows if not r[3]]
print(f"{len(rows)} seeds, {len(bad)} problems")
sys.exit(1 if bad else 0)
