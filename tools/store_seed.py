#!/venv/bin/python
"""store_seed.py <seed-id> <src dir> <property> <caught-by csv or ''> <needs...>  -> /verif/seeded/<seed-id>/"""
import json, os, shutil, sys
sid, src, prop, caught, needs = sys.argv[1], sys.argv[2], sys.argv[3], sys.argv[4], " ".join(sys.argv[5:])
d = os.path.join("/verif/seeded", sid)
os.makedirs(d, exist_ok=True)
for f in ("patch.diff", "demo.py", "notes.md"):
    if os.path.exists(os.path.join(src, f)):
        shutil.copy(os.path.join(src, f), os.path.join(d, f))
meta = {"id": sid, "property": prop, "origin": "independent sub-agent given only the property text and a scratch worktree",
        "needs_to_manifest": needs,
        "confirmed": ["patch applies to a fresh export of /repo HEAD", "demo.py exits 0 on /repo and non-zero on the patched copy",
                      "baseline suite on the patched copy: every test of BASELINE.stable_pass still passes (flaky test_issue_515 / draw doctest ignored)"],
        "ran": f"tools/try_mutant.sh {sid} <dir> '{caught.replace(',', ' ')}' (quick tier, VERIF_REPO = scratch copy)",
        "caught_by": [c for c in caught.split(",") if c], "tier": "quick"}
json.dump(meta, open(os.path.join(d, "meta.json"), "w"), indent=1)
print("stored", d)
