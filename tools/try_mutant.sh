#!/bin/bash
# usage: try_mutant.sh <name> <dir with patch.diff demo.py> "<checks to run, e.g. C05 C01>" [tier]
# Confirms a seeded property-breaking change in a scratch copy of /repo (never in /repo itself): the patch applies, the
# demonstration fails with it and passes without it, the repository's suite keeps its baseline result, and runs the given checks.
set -u
name=$1; src=$2; checks=$3; tier=${4:-quick}
S=/root/scratch-seed-$name
rm -rf $S; mkdir -p $S
git -C /repo archive HEAD | tar -x -C $S
cd $S && git init -q . >/dev/null 2>&1
if ! git -C $S apply --whitespace=nowarn $src/patch.diff; then echo "PATCH DOES NOT APPLY"; exit 3; fi
echo "== demo on /repo:"; /venv/bin/python $src/demo.py /repo >/tmp/demo-$name-base.log 2>&1; echo "exit $?"
echo "== demo on patched copy:"; /venv/bin/python $src/demo.py $S >/tmp/demo-$name-mut.log 2>&1; echo "exit $?"; tail -2 /tmp/demo-$name-mut.log
if [ "${SKIP_SUITE:-0}" != "1" ]; then
  echo "== suite on patched copy:"
  (cd $S && /venv/bin/python -m pytest -q -p no:cacheprovider --timeout=900 --continue-on-collection-errors --junitxml=/tmp/junit-$name.xml >/tmp/suite-$name.log 2>&1); tail -1 /tmp/suite-$name.log
  /venv/bin/python - $name <<'PY'
import json, sys, xml.etree.ElementTree as ET
name=sys.argv[1]
base=set(json.load(open('/root/.vp/BASELINE.json'))['stable_pass'])
t=ET.parse(f'/tmp/junit-{name}.xml')
passed=set()
for tc in t.iter('testcase'):
    if not any(c.tag in ('failure','error','skipped') for c in tc):
        passed.add(f"{tc.get('classname')}::{tc.get('name')}")
lost=sorted(base-passed)
flaky={"tests.communities.test_spectral.TestSpectralClustering::test_perfectly_separable_low_dimensions","tests.drawing.test_draw::test_issue_515","xgi.drawing.draw::xgi.drawing.draw.draw"}
print("baseline tests no longer passing:", [x for x in lost if x not in flaky], "(flaky ignored:", [x for x in lost if x in flaky], ")")
PY
fi
cd /verif
for c in $checks; do
  echo "== check $c ($tier) on patched copy:"
  VERIF_REPO=$S ./run check $c --tier $tier 2>&1 | grep -v conda | grep "by monitor\|tier=\|KNOWN" | cut -c1-260
done
rm -rf $S
