import warnings, importlib, itertools
warnings.simplefilter("ignore")
import xgi
class Diverged(Exception): pass
class Chooser:
    """stateless DFS over choice points: replay prefix, then take 0; record arities"""
    def __init__(self, prefix): self.prefix=list(prefix); self.trace=[]  # (choice, arity)
    def choose(self, arity, tag=None):
        i=len(self.trace)
        c=self.prefix[i] if i<len(self.prefix) else 0
        if c>=arity: raise Diverged((i,c,arity,tag))
        self.trace.append((c,arity)); return c
def explore(run):
    """run(chooser)->result ; yields (choices,result) for all executions"""
    stack=[[]]; n=0
    while stack:
        prefix=stack.pop()
        ch=Chooser(prefix); res=run(ch); n+=1
        yield [c for c,_ in ch.trace], res
        for i in range(len(prefix), len(ch.trace)):
            c,a=ch.trace[i]
            for alt in range(c+1,a):
                stack.append([x for x,_ in ch.trace[:i]]+[alt])
mod=importlib.import_module("xgi.generators.random")
def run(ch, n=4, d=1, p=0.5):
    from scipy.special import comb
    K=comb(n,d+1,exact=True)+1
    orig=mod.geometric
    mod.geometric=lambda p_: ch.choose(K,"geom")+1
    try: H=xgi.fast_random_hypergraph(n,[p],order=[d]) if False else xgi.fast_random_hypergraph(n,p,order=d)
    finally: mod.geometric=orig
    return tuple(sorted(tuple(sorted(e)) for e in H.edges.members()))
outs=[r for _,r in explore(run)]
print(len(outs), len(set(outs)), all(len(set(o))==len(o) for o in outs))
allsub=set()
edges=list(itertools.combinations(range(4),2))
for r in range(len(edges)+1):
    for c in itertools.combinations(edges,r): allsub.add(tuple(sorted(c)))
print(set(outs)==allsub)
# random_edge_shuffle all outcomes
hm=importlib.import_module("xgi.core.hypergraph")
class RShim:
    def __init__(s,ch): s.ch=ch
    def sample(s,pop,k):
        pop=list(pop); combos=list(itertools.combinations(range(len(pop)),k))
        return [pop[i] for i in combos[s.ch.choose(len(combos),"sample")]]
def run2(ch):
    H=xgi.Hypergraph([[1,2,3],[3,4],[4,5]])
    orig=hm.random; hm.random=RShim(ch)
    try: H.random_edge_shuffle()
    finally: hm.random=orig
    return tuple(sorted((k,tuple(sorted(v))) for k,v in H.edges.members(dtype=dict).items())), tuple(sorted(H.nodes.degree.asdict().items()))
res=list(explore(run2)); print(len(res), len(set(r for _,r in res)))
print(set(r[1] for _,r in res))
