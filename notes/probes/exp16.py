import warnings
warnings.simplefilter("ignore")
import xgi, random, itertools, collections, copy, networkx as nx
random.seed(11)
bad=collections.Counter(); ex={}
def rec(tag,*info):
    bad[tag]+=1
    if tag not in ex: ex[tag]=info
def comps(nodes, edges):
    G=nx.Graph(); G.add_nodes_from(nodes)
    for e,m in edges.items():
        m=list(m)
        for u,v in zip(m,m[1:]): G.add_edge(u,v)
    return [set(c) for c in nx.connected_components(G)]
def model(nodes, edges, nattr, eattr, iso, sing, multi, conn, rel):
    nodes=list(nodes); edges={e:set(m) for e,m in edges.items()}; eattr=copy.deepcopy(eattr); nattr=copy.deepcopy(nattr)
    if not multi:
        cls=collections.OrderedDict()
        for e,m in edges.items(): cls.setdefault(frozenset(m),[]).append(e)
        for m,ids in cls.items():
            if len(ids)>1:
                keep=sorted(ids)[0]; at=eattr[keep]
                for i in ids: del edges[i]; 
                for i in ids:
                    if i!=keep: del eattr[i]
                edges[keep]=set(m); eattr[keep]=at  # moves to end
                eattr={k:eattr[k] for k in edges}
    if not sing:
        for e in [e for e,m in edges.items() if len(m)==1]: del edges[e]; del eattr[e]
    if not iso:
        used=set().union(*edges.values()) if edges else set()
        nodes=[n for n in nodes if n in used]
    options=[None]
    if conn:
        if not nodes: return "EMPTY"
        cs=comps(nodes,edges); mx=max(len(c) for c in cs)
        options=[c for c in cs if len(c)==mx]
    outs=[]
    for c in options:
        ns=[n for n in nodes if c is None or n in c]
        es={e:m for e,m in edges.items() if c is None or (m and m<=c) }  # weak removal of outside nodes: edges fully outside vanish; edges are within one comp
        if c is not None:
            # empty edges: removal of nodes doesn't touch them -> they stay
            es={e:m for e,m in edges.items() if (not m) or m<=c}
        outs.append((ns,es))
    return outs
for it in range(400):
    labels=random.choice([[0,1,2,3,4],list("abcde"),[10,3,7,1,8]])
    H=xgi.Hypergraph(); H.add_nodes_from(random.sample(labels,random.randint(0,5)))
    ids=[4,0,2,1,3]; random.shuffle(ids)
    for k in range(random.randint(0,5)):
        H.add_edge(random.sample(labels,random.randint(1,3)), idx=ids[k], w=k)
    if random.random()<.2: H.add_edge([], idx=9)
    for flags in itertools.product([False,True],repeat=5):
        iso,sing,multi,conn,rel=flags
        m=model(list(H.nodes), H.edges.members(dtype=dict), {n:dict(H.nodes[n]) for n in H.nodes}, {e:dict(H.edges[e]) for e in H.edges}, *flags)
        try: C=H.cleanup(isolates=iso,singletons=sing,multiedges=multi,connected=conn,relabel=rel,in_place=False)
        except Exception as e:
            if m=="EMPTY": continue
            rec("EXC:"+type(e).__name__+str(e)[:40], list(H.nodes), H.edges.members(dtype=dict), flags); continue
        if m=="EMPTY": rec("model-empty-but-impl-ok"); continue
        if rel:
            got_nodes=[C.nodes[n]["label"] for n in C.nodes]; got_edges={C.edges[e]["label"]:{C.nodes[n]["label"] for n in mm} for e,mm in C.edges.members(dtype=dict).items()}
            okids = list(C.nodes)==list(range(C.num_nodes)) and list(C.edges)==list(range(C.num_edges))
            if not okids: rec("relabel-ids")
        else:
            got_nodes=list(C.nodes); got_edges=C.edges.members(dtype=dict)
        if not any(set(got_nodes)==set(ns) and got_edges==es for ns,es in m):
            rec("mismatch", list(H.nodes), H.edges.members(dtype=dict), flags, got_nodes, got_edges, m)
print(bad)
for k,v in ex.items(): print(k,"\n    ",str(v)[:900])
