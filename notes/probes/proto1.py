import warnings, time, itertools, copy, sys
warnings.simplefilter("ignore")
import xgi
from collections import deque
NODES=[1,2,3]
SUBS=[list(c) for r in range(0,4) for c in itertools.combinations(NODES,r)]
def alphabet():
    ops=[]
    for n in NODES: ops.append(("add_node",(n,),{}))
    for S in SUBS:
        ops.append(("add_edge",(S,),{}))
    for S in SUBS[1:5]:
        for i in (0,2,'e'): ops.append(("add_edge",(S,),{"idx":i}))
    ops.append(("add_edges_from",([[1,2],[2,3]],),{}))
    ops.append(("add_edges_from",([([1,2],2),([2,3],0)],),{}))
    ops.append(("add_edges_from",([([1,2],{"c":1}),([3],{})],),{}))
    ops.append(("add_edges_from",([([1,2],'e',{"c":1}),([3],1,{})],),{}))
    ops.append(("add_edges_from",({2:[1,2],0:[3]},),{}))
    for e in (0,1,'e',7):
        for n in (1,3,9): ops.append(("add_node_to_edge",(e,n),{}))
    for n in NODES+[9]:
        for st in (False,True):
            for re in (True,False): ops.append(("remove_node",(n,),{"strong":st,"remove_empty":re}))
    for e in (0,1,2,'e',9): ops.append(("remove_edge",(e,),{}))
    ops.append(("remove_edges_from",([0,1],),{})); ops.append(("remove_edges_from",([0,9],),{}))
    for e in (0,1,'e'):
        for n in (1,2):
            for re in (True,False): ops.append(("remove_node_from_edge",(e,n),{"remove_empty":re}))
    for (n1,n2) in ((1,2),(1,3),(2,3),(2,1)):
        for (e1,e2) in ((0,1),(1,0),(0,'e')): ops.append(("double_edge_swap",(n1,n2,e1,e2),{}))
    ops.append(("clear",(),{})); ops.append(("clear_edges",(),{}))
    for rn in ("first","tuple","new"): ops.append(("merge_duplicate_edges",(),{"rename":rn}))
    ops.append(("add_edge",([1,None],),{})); ops.append(("add_edges_from",([[1,None]],),{}))
    ops.append(("cleanup",(),{})); ops.append(("cleanup",(),{"connected":False,"relabel":False}))
    return ops
OPS=alphabet(); print(len(OPS),"ops")
def build(hist):
    H=xgi.Hypergraph()
    for i in hist:
        m,a,k=OPS[i]
        try: getattr(H,m)(*copy.deepcopy(a),**k)
        except Exception: pass
    return H
def key(H):
    return (tuple((n,tuple(v)) for n,v in H._node.items()), tuple((e,tuple(v)) for e,v in H._edge.items()),
            tuple((n,repr(v)) for n,v in H._node_attr.items()), tuple((e,repr(v)) for e,v in H._edge_attr.items()), next(copy.copy(H._edge_uid)))
def inv(H):
    for n,es in H._node.items():
        for e in es:
            if e not in H._edge or n not in H._edge[e]: return False
    for e,ns in H._edge.items():
        for n in ns:
            if n not in H._node or e not in H._node[n]: return False
    return set(H._node)==set(H._node_attr) and set(H._edge)==set(H._edge_attr)
t=time.time()
seen={key(build([]))}; frontier=deque([[]]); trans=0; viol=0; D=int(sys.argv[1])
levels={0:1}
while frontier:
    h=frontier.popleft()
    if len(h)>=D: continue
    for i in range(len(OPS)):
        H=build(h+[i]); trans+=1
        if not inv(H): viol+=1; continue   # don't expand broken states
        k=key(H)
        if k not in seen:
            seen.add(k); frontier.append(h+[i]); levels[len(h)+1]=levels.get(len(h)+1,0)+1
print("depth",D,"states",len(seen),"transitions",trans,"viol",viol,"levels",levels,"time",round(time.time()-t,1))
