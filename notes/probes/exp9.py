import warnings
warnings.simplefilter("ignore")
import matplotlib; matplotlib.use("Agg")
import matplotlib.pyplot as plt
import xgi, numpy as np, time
def tryit(name, f):
    try:
        r = f(); print("OK  ", name, "->", r)
    except Exception as e:
        print("EXC ", name, "->", type(e).__name__, e)
def info(H, **kw):
    fig, ax = plt.subplots()
    pos = xgi.circular_layout(H)
    ax, (nc, dc, ec) = xgi.draw(H, pos=pos, ax=ax, **kw)
    r = (nc.get_offsets().shape, len(dc.get_segments()), len(ec.get_paths()), [p.vertices.shape for p in ec.get_paths()])
    plt.close(fig); return r
t=time.time()
tryit("dyads only", lambda: info(xgi.Hypergraph([[1,2],[2,3]])))
tryit("triangle only", lambda: info(xgi.Hypergraph([[1,2,3]])))
tryit("mixed+isolated+singleton", lambda: info(xgi.Hypergraph([[1,2,3],[3,4],[5],[1,2,3,4]])))
H=xgi.Hypergraph([["a","b","c"],["c","d"]]); H.add_node("z")
tryit("str labels", lambda: info(H))
tryit("max_order=1", lambda: info(xgi.Hypergraph([[1,2,3],[3,4]]), max_order=1))
tryit("max_order=2 with 4-edge", lambda: info(xgi.Hypergraph([[1,2,3],[3,4],[1,2,3,4]]), max_order=2))
tryit("singletons only", lambda: info(xgi.Hypergraph([[1],[2]])))
tryit("no edges", lambda: info(xgi.Hypergraph([[1],[2]]).cleanup(singletons=False,isolates=True,connected=False,in_place=False)))
tryit("multi-edges", lambda: info(xgi.Hypergraph([[1,2],[1,2],[1,2,3],[1,2,3]])))
tryit("SC", lambda: info(xgi.SimplicialComplex([[1,2,3],[3,4]])))
tryit("SC 4", lambda: info(xgi.SimplicialComplex([[1,2,3,4],[4,5]])))
tryit("SC max_order 2", lambda: info(xgi.SimplicialComplex([[1,2,3,4],[4,5]]), max_order=2))
tryit("SC dyads only", lambda: info(xgi.SimplicialComplex([[1,2],[2,3]])))
tryit("node_size stat", lambda: info(xgi.Hypergraph([[1,2,3],[3,4]]), node_size=xgi.Hypergraph([[1,2,3],[3,4]]).nodes.degree))
tryit("edge_fc list", lambda: info(xgi.Hypergraph([[1,2,3],[3,4],[2,3,4,5]]), edge_fc=["red","blue"]))
tryit("empty edge", lambda: info((lambda H:(H.add_edge([]),H)[1])(xgi.Hypergraph([[1,2,3],[3,4]]))))
print("time",time.time()-t)
for lay in (xgi.random_layout, xgi.pairwise_spring_layout, xgi.barycenter_spring_layout, xgi.weighted_barycenter_spring_layout, xgi.circular_layout, xgi.spiral_layout, xgi.barycenter_kamada_kawai_layout):
    for H in (xgi.Hypergraph(), xgi.trivial_hypergraph(1), xgi.trivial_hypergraph(3), xgi.Hypergraph([["a","b"],["b","c","d"]]), xgi.SimplicialComplex([[1,2,3]])):
        try:
            p = lay(H); ok = set(p)==set(H.nodes) and all(np.shape(v)==(2,) and np.all(np.isfinite(v)) for v in p.values())
            if not ok: print("BAD", lay.__name__, H, p)
        except Exception as e: print("EXC", lay.__name__, H, type(e).__name__, e)
tryit("bip layout", lambda: xgi.bipartite_spring_layout(xgi.Hypergraph([[1,2],[2,3,4]]), seed=1))
