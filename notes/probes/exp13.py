import warnings, signal
warnings.simplefilter("ignore")
import xgi, numpy as np
def tryit(name, f, t=3):
    def h(*a): raise TimeoutError("timeout")
    signal.signal(signal.SIGALRM, h); signal.alarm(t)
    try:
        r = f(); print("OK  ", name, "->", r)
    except BaseException as e:
        print("EXC ", name, "->", type(e).__name__, str(e)[:80])
    finally: signal.alarm(0)
tryit("sunflower(3,1,3)", lambda: xgi.sunflower(3,1,3).edges.members())
tryit("sunflower(2,2,2) m==c", lambda: xgi.sunflower(2,2,2).edges.members())
tryit("sunflower(0,1,3)", lambda: xgi.sunflower(0,1,3).edges.members())
tryit("sunflower(2,0,2)", lambda: xgi.sunflower(2,0,2).edges.members())
tryit("star_clique(1,2,1)", lambda: xgi.star_clique(1,2,1).edges.members())
tryit("ring_lattice(6,3,4,1)", lambda: xgi.ring_lattice(6,3,4,1).edges.members())
tryit("complete(3,order=0)", lambda: xgi.complete_hypergraph(3,order=0).edges.members())
tryit("ER degree", lambda: xgi.uniform_erdos_renyi_hypergraph(5,2,1.0,p_type="degree",seed=1).num_edges)
tryit("HPPM", lambda: xgi.uniform_HPPM(6,2,2,0.5,seed=1).num_edges)
tryit("dcsbm", lambda: xgi.dcsbm_hypergraph({0:1,1:2},{0:2,1:1},{0:0,1:1},{0:0,1:1},np.array([[2,0],[0,1]]),seed=1).edges.members(dtype=dict))
tryit("random_simplicial_complex", lambda: xgi.random_simplicial_complex(4,[0.5,0.5],seed=1).edges.members())
tryit("shuffle", lambda: xgi.shuffle_hyperedges(xgi.Hypergraph([[1,2],[2,3],[1,2,3]]),1,1.0,seed=1).edges.members(dtype=dict))
import networkx as nx
tryit("flag None", lambda: xgi.flag_complex(nx.path_graph(3), max_order=None).edges.members())
G=nx.Graph(); G.add_nodes_from([0,1,2,3]); G.add_edges_from([(0,1),(1,2),(0,2)])
tryit("flag None iso", lambda: xgi.flag_complex(G, max_order=None).edges.members())
tryit("flag 2", lambda: xgi.flag_complex(G, max_order=2).edges.members())
