import warnings
warnings.simplefilter("ignore")
import xgi, numpy as np, networkx as nx, itertools, random, math
random.seed(2)
def tryit(name, f):
    try:
        r = f(); print("OK  ", name, "->", r)
    except Exception as e:
        print("EXC ", name, "->", type(e).__name__, e)
def rand_h(n=5, m=4, maxsize=4, labels=None):
    labels = labels or list(range(n))
    H=xgi.Hypergraph(); H.add_nodes_from(labels)
    for _ in range(random.randint(0,m)):
        k=random.randint(1,maxsize); H.add_edge(random.sample(labels,min(k,n)))
    return H
errs=0
for it in range(600):
    H=rand_h(6,5,3, labels=random.choice([list(range(6)), list("abcdef"), [10,3,7,1,8,2]]))
    for flags in itertools.product([False,True],repeat=5):
        iso,sing,multi,conn,rel=flags
        try:
            C=H.cleanup(isolates=iso,singletons=sing,multiedges=multi,connected=conn,relabel=rel,in_place=False)
        except Exception as e:
            errs+=1
            if errs<6: print("cleanup EXC",type(e).__name__,e,H.nodes,H.edges.members(),flags)
            continue
        mem=C.edges.members()
        ok=True
        if not iso and len(C.nodes.isolates())>0: ok=False; why="isolates"
        if not sing and len(C.edges.singletons())>0: ok=False; why="singletons"
        if not multi and len(set(map(frozenset,mem)))!=len(mem): ok=False; why="multi"
        if conn and C.num_nodes>0 and not xgi.is_connected(C): ok=False; why="conn"
        if rel and (list(C.nodes)!=list(range(C.num_nodes)) or list(C.edges)!=list(range(C.num_edges))): ok=False; why="relabel"
        if not ok:
            errs+=1
            if errs<12: print("cleanup BAD",why,H.nodes,H.edges.members(),flags,C.nodes,C.edges.members(dtype=dict))
print("cleanup errs",errs)
H=xgi.Hypergraph(); tryit("cleanup empty", lambda: H.cleanup(in_place=False))
H=xgi.Hypergraph(); H.add_nodes_from([1,2]); tryit("cleanup only isolates", lambda: H.cleanup(in_place=False))
H=xgi.Hypergraph([[1],[2]]); tryit("cleanup only singletons", lambda: H.cleanup(in_place=False))
H=xgi.Hypergraph([[1,2],[3,4]]); tryit("cleanup tie", lambda: H.cleanup(in_place=False).edges.members())
# dual involution
bad=0
for it in range(500):
    H=rand_h(5,4,3); H.remove_nodes_from(H.nodes.isolates())
    D=H.dual().dual()
    if D.edges.members(dtype=dict)!=H.edges.members(dtype=dict) or set(D.nodes)!=set(H.nodes): bad+=1
print("dual bad",bad)
H=xgi.Hypergraph([[1,2],[2,3]]); print((H<<xgi.Hypergraph({0:[7,8]})).edges.members(dtype=dict))
tryit("complement", lambda: xgi.complement(xgi.Hypergraph([[1,2],[3]])).edges.members())
tryit("sub", lambda: xgi.subhypergraph(xgi.Hypergraph([[1,2],[2,3],[3]]), nodes=[1,2,9], edges=[0,1,5]).edges.members(dtype=dict))
S=xgi.SimplicialComplex([[1,2,3,4]]); tryit("k_skel", lambda: sorted(map(sorted,xgi.k_skeleton(S,1).edges.members())))
tryit("cut_to_order H", lambda: xgi.cut_to_order(xgi.Hypergraph([[1,2,3],[1,2],[4]]),1).edges.members(dtype=dict))
tryit("cut_to_order too big", lambda: xgi.cut_to_order(xgi.Hypergraph([[1,2,3]]),5))
tryit("from_max_simplices", lambda: xgi.from_max_simplices(S).edges.members())
H=xgi.Hypergraph([[1,2],[2,3],[7,8]]); H.add_node(9)
tryit("lch", lambda: (xgi.largest_connected_hypergraph(H).nodes, xgi.largest_connected_hypergraph(H).edges.members(dtype=dict)))
tryit("lch attrs frozen?", lambda: xgi.largest_connected_hypergraph(H).is_frozen)
tryit("relabel", lambda: (lambda R:(R.nodes.attrs.asdict(), R.edges.attrs.asdict(), R.edges.members(dtype=dict)))(xgi.convert_labels_to_integers(H)))
D=xgi.DiHypergraph({"a":([1,2],[3]),"b":([3],[1])}); tryit("relabel DiH", lambda: (lambda R:(R.nodes.attrs.asdict(), R.edges.attrs.asdict(), R.edges.dimembers(dtype=dict)))(xgi.convert_labels_to_integers(D)))
tryit("DiH cleanup", lambda: D.cleanup(in_place=False).edges.dimembers(dtype=dict))
