import warnings
warnings.simplefilter("ignore")
import xgi, random, tempfile, os, itertools, collections, json
random.seed(5)
d=tempfile.mkdtemp()
def rnd(labels, strids=False):
    H=xgi.Hypergraph(); H.add_nodes_from(random.sample(labels, random.randint(0,len(labels))))
    ids=list(range(6)); random.shuffle(ids)
    for k in range(random.randint(0,4)):
        mem=random.sample(labels, random.randint(0,3))
        eid = ("e%d"%ids[k]) if strids else ids[k]
        H.add_edge(mem, idx=eid)
        if random.random()<.5: H.set_edge_attributes({eid:{"w":random.randint(1,3),"t":[1,{"a":2}]}})
    for n in list(H.nodes):
        if random.random()<.3: H.set_node_attributes({n:{"c":"r"}})
    if random.random()<.5: H["name"]="x"; H["meta"]={"k":[1,2]}
    return H
def full(H): return (dict(H.nodes.memberships()), dict(H.edges.members(dtype=dict)), {n:dict(H.nodes[n]) for n in H.nodes}, {e:dict(H.edges[e]) for e in H.edges}, dict(H._net_attr))
def inc(H): return {(n,e) for e,m in H.edges.members(dtype=dict).items() for n in m}
bad=collections.Counter(); ex={}
def rec(tag,H,*info):
    bad[tag]+=1
    if tag not in ex: ex[tag]=(H.nodes, H.edges.members(dtype=dict), info)
for it in range(1500):
    labels = random.choice([[1,2,3,4],["a","b","c","d"],[10,3,7,1]])
    strids = random.random()<.3
    H=rnd(labels,strids)
    nt = int if isinstance(labels[0],int) else str; et = str if strids else int
    try:
        # hif dict
        R=xgi.from_hif_dict(xgi.to_hif_dict(H))
        if full(R)!=full(H): rec("hif_dict",H,full(R))
        p=os.path.join(d,"h.json"); xgi.write_hif(H,p); R=xgi.read_hif(p)
        if full(R)!=full(H): rec("hif_file",H,full(R))
        R=xgi.from_hypergraph_dict(xgi.to_hypergraph_dict(H),nodetype=nt,edgetype=et)
        if full(R)!=full(H): rec("hdict",H,full(R))
        xgi.write_json(H,p); R=xgi.read_json(p,nodetype=nt,edgetype=et)
        if full(R)!=full(H): rec("json_file",H,full(R))
        R=xgi.from_hyperedge_dict(xgi.to_hyperedge_dict(H))
        if R.edges.members(dtype=dict)!=H.edges.members(dtype=dict): rec("hyperedge_dict",H)
        if H.num_edges and all(len(m)>0 for m in H.edges.members()):
            R=xgi.from_hyperedge_list(xgi.to_hyperedge_list(H))
            if R.edges.members()!=H.edges.members(): rec("hyperedge_list",H, R.edges.members())
        bl=xgi.to_bipartite_edgelist(H)
        if bl:
            R=xgi.from_bipartite_edgelist(bl)
            if inc(R)!=inc(H): rec("bip_edgelist",H)
        I,rd,cd=xgi.to_incidence_matrix(H,index=True)
        if I.shape!=(0,0):
            R=xgi.from_incidence_matrix(I,nodelabels=[rd[i] for i in range(len(rd))],edgelabels=[cd[i] for i in range(len(cd))])
            if inc(R)!=inc(H): rec("incidence",H)
        G,nd,ed=xgi.to_bipartite_graph(H,index=True)
        R=xgi.from_bipartite_graph(G)
        if {(nd[n],ed[e]) for (n,e) in inc(R)}!=inc(H): rec("bip_graph",H)
        df=xgi.to_bipartite_pandas_dataframe(H)
        if len(df):
            R=xgi.from_bipartite_pandas_dataframe(df)
            if inc(R)!=inc(H): rec("pandas",H)
        if inc(H):
            for delim in (" ",",","\t","|","::"):
                xgi.write_bipartite_edgelist(H,p,delimiter=delim); R=xgi.read_bipartite_edgelist(p,delimiter=delim,nodetype=nt,edgetype=et)
                if inc(R)!=inc(H): rec("bip_file"+delim,H)
                if all(len(m)>0 for m in H.edges.members()):
                    xgi.write_edgelist(H,p,delimiter=delim); R=xgi.read_edgelist(p,delimiter=delim,nodetype=nt)
                    if R.edges.members()!=H.edges.members(): rec("edgelist_file"+delim,H,R.edges.members())
    except Exception as e:
        rec("EXC:"+type(e).__name__+":"+str(e)[:50],H)
print(bad)
for k,v in ex.items(): print(k,"\n    ",v)
