"""Prototype: reference model of Hypergraph (transcribed from docstrings) + conformance BFS. Scratch only."""
import warnings, itertools, copy, sys, collections
import xgi
from xgi.exception import XGIError, IDNotFound
LIBERR=(XGIError, IDNotFound)

class Ref:
    def __init__(s): s.node={}; s.nattr={}; s.edge={}; s.eattr={}; s.net={}
    def load(s,H):
        s.node={n:set(v) for n,v in H.nodes.memberships().items()}
        s.nattr={n:copy.deepcopy(dict(H.nodes[n])) for n in H.nodes}
        s.edge={e:set(v) for e,v in H.edges.members(dtype=dict).items()}
        s.eattr={e:copy.deepcopy(dict(H.edges[e])) for e in H.edges}
        s.net=copy.deepcopy(dict(H._net_attr))
    def snap(s): return (list(s.node), {n:set(v) for n,v in s.node.items()}, list(s.edge), {e:set(v) for e,v in s.edge.items()}, s.nattr, s.eattr, s.net)
    # --- helpers
    def _newnode(s,n):
        if n not in s.node: s.node[n]=set(); s.nattr[n]={}
    def _addedge(s,eid,members,attr):
        s.edge[eid]=set(members); s.eattr[eid]=dict(attr)
        for n in members: s._newnode(n); s.node[n].add(eid)
    def _deledge(s,e):
        for n in s.edge[e]: s.node[n].discard(e)
        del s.edge[e]; del s.eattr[e]
    # --- ops return ("ok", warned_bool, n_auto) or ("err",)
    def add_node(s,n,**a):
        if n is None: return ("err",)
        s._newnode(n); s.nattr[n].update(a); return ("ok",False,0)
    def add_nodes_from(s,items,**a):
        for it in items:
            try: hash(it); n,d=it,{}
            except TypeError: n,d=it
            if n is None: return ("err",)
            s._newnode(n); s.nattr[n].update(a); s.nattr[n].update(d)
        return ("ok",False,0)
    def remove_node(s,n,strong=False,remove_empty=True):
        if n not in s.node: return ("err",)
        es=s.node.pop(n); del s.nattr[n]
        for e in list(es):
            if strong: 
                s.edge[e].discard(n); s._deledge(e)
            else:
                s.edge[e].discard(n)
                if not s.edge[e] and remove_empty: del s.edge[e]; del s.eattr[e]
        return ("ok",False,0)
    def remove_nodes_from(s,ns,strong=False,remove_empty=True):
        w=False
        for n in ns:
            if n not in s.node: w=True; continue
            s.remove_node(n,strong,remove_empty)
        return ("ok",w,0)
    def add_edge(s,members,idx=None,**a):
        members=set(members)
        if None in members: return ("err",)
        if idx is not None and idx in s.edge: return ("ok",True,0)
        if idx is None: return ("auto",[(members,a)])
        s._addedge(idx,members,a); return ("ok",False,0)
    def add_edges_from(s,fmt,items,**a):
        autos=[]; w=False
        for it in (items.items() if fmt==5 else items):
            if fmt==1: m,i,d=it,None,{}
            elif fmt==2: m,i,d=it[0],it[1],{}
            elif fmt==3: m,i,d=it[0],None,it[1]
            elif fmt==4: m,i,d=it
            else: i,m=it; d={}
            m=set(m)
            if None in m or (fmt in(2,4,5) and i is None): return ("err",)
            at=dict(a); at.update(d)
            if i is None: autos.append((m,at))   # placed in sequence: need order -> handle by caller
            elif i in s.edge: w=True
            else: s._addedge(i,m,at)
        if autos: return ("auto",autos,w)
        return ("ok",w,0)
    def add_node_to_edge(s,e,n):
        if e is None or n is None: return ("err",)
        if e not in s.edge: s.edge[e]=set(); s.eattr[e]={}
        s._newnode(n); s.edge[e].add(n); s.node[n].add(e); return ("ok",False,0)
    def remove_edge(s,e):
        if e not in s.edge: return ("err",)
        s._deledge(e); return ("ok",False,0)
    def remove_edges_from(s,es):
        for e in es:
            if e not in s.edge: return ("err",)
            s._deledge(e)
        return ("ok",False,0)
    def remove_node_from_edge(s,e,n,remove_empty=True):
        if e not in s.edge or n not in s.node or n not in s.edge[e]: return ("err",)
        s.edge[e].discard(n); s.node[n].discard(e)
        if not s.edge[e] and remove_empty: del s.edge[e]; del s.eattr[e]
        return ("ok",False,0)
    def clear(s,remove_net_attr=True):
        s.node.clear(); s.nattr.clear(); s.edge.clear(); s.eattr.clear()
        if remove_net_attr: s.net.clear()
        return ("ok",False,0)
    def clear_edges(s):
        for n in s.node: s.node[n]=set()
        s.edge.clear(); s.eattr.clear(); return ("ok",False,0)
    def set_edge_attributes(s,values,name=None):
        w=False
        if name is not None:
            if isinstance(values,dict):
                for e,v in values.items():
                    if e in s.eattr: s.eattr[e][name]=v
                    else: w=True
            else:
                for e in s.eattr: s.eattr[e][name]=values
        else:
            if not isinstance(values,dict): return ("err",)
            for e,d in values.items():
                if e in s.eattr: s.eattr[e].update(d)
                else: w=True
        return ("ok",w,0)
    def set_node_attributes(s,values,name=None):
        w=False
        if name is not None:
            if isinstance(values,dict):
                for n,v in values.items():
                    if n in s.nattr: s.nattr[n][name]=v
                    else: w=True
            else:
                for n in s.nattr: s.nattr[n][name]=values
        else:
            if not isinstance(values,dict): return ("err",)
            for n,d in values.items():
                if n in s.nattr: s.nattr[n].update(d)
                else: w=True
        return ("ok",w,0)
    def double_edge_swap(s,n1,n2,e1,e2):
        if n1 not in s.node or n2 not in s.node or e1 not in s.edge or e2 not in s.edge: return ("err",)
        if n1 not in s.edge[e1] or n2 not in s.edge[e2]: return ("err",)
        # must preserve sizes and degrees
        if n2 in s.edge[e1] or n1 in s.edge[e2] or e1==e2 and n1!=n2: return ("err",)
        if n1==n2 or e1==e2: return ("ok",False,0)
        s.edge[e1].discard(n1); s.edge[e1].add(n2); s.edge[e2].discard(n2); s.edge[e2].add(n1)
        s.node[n1].discard(e1); s.node[n1].add(e2); s.node[n2].discard(e2); s.node[n2].add(e1)
        return ("ok",False,0)
    def merge_duplicate_edges(s,rename="first",merge_rule="first",multiplicity=None):
        classes=collections.OrderedDict()
        for e,m in s.edge.items(): classes.setdefault(frozenset(m),[]).append(e)
        new=[]; autos=[]
        for m,ids in classes.items():
            if len(ids)<2: continue
            try: srt=sorted(ids)
            except TypeError: return ("unspec",)
            if merge_rule=="first": at=copy.deepcopy(s.eattr[srt[0]])
            elif merge_rule=="union":
                keys={k for i in ids for k in s.eattr[i]}
                try: at={k:{s.eattr[i].get(k) for i in ids} for k in keys}
                except TypeError: return ("unspec",)
            else:
                keys={k for i in ids for k in s.eattr[i]}
                try:
                    sets={k:{s.eattr[i].get(k) for i in ids} for k in keys}
                except TypeError: return ("unspec",)
                at={k:(next(iter(v)) if len(v)==1 else None) for k,v in sets.items()}
            if multiplicity is not None: at[multiplicity]=len(ids)
            nid = srt[0] if rename=="first" else tuple(srt) if rename=="tuple" else None
            new.append((m,nid,at,ids))
        for m,nid,at,ids in new:
            for i in ids: s._deledge(i)
        for m,nid,at,ids in new:
            if nid is None: autos.append((set(m),at))
            else: s._addedge(nid,m,at)
        if autos: return ("auto",autos, merge_rule=="union")
        return ("ok", merge_rule=="union" ,0)
    def update(s,edges=None,nodes=None):
        if nodes: s.add_nodes_from(nodes)
        if edges: return s.add_edges_from(1,edges)
        return ("ok",False,0)

def snapH(H):
    try: return _snapH(H)
    except Exception as e: return ("BROKEN",{},"BROKEN",{}, {}, {}, {})
def _snapH(H):
    return (list(H.nodes), H.nodes.memberships(), list(H.edges), H.edges.members(dtype=dict), {n:dict(H.nodes[n]) for n in H.nodes}, {e:dict(H.edges[e]) for e in H.edges}, dict(H._net_attr))

N=[1,2,3]
OPS=[]
def op(_nm,*a,**k): OPS.append((_nm,a,k))
for n in N: op("add_node",n)
op("add_node",1,c="r"); op("add_node",None)
op("add_nodes_from",[1,2]); op("add_nodes_from",[(1,{"c":"b"}),(3,{})],c="r",d=1)
for S in ([],[1],[1,2],[2,3],[1,2,3]):
    op("add_edge",S); 
    for i in (0,2,'e'): op("add_edge",S,idx=i)
op("add_edge",[1,2],c="r"); op("add_edge",[1,None])
op("add_edges_from",1,[[1,2],[2,3]],w=1)
op("add_edges_from",2,[([1,2],2),([2,3],0)],w=1)
op("add_edges_from",2,[([1,2],0),([3],0)])
op("add_edges_from",3,[([1,2],{"w":2}),([3],{})],w=1,c="g")
op("add_edges_from",4,[([1,2],'e',{"w":2}),([3],1,{})],w=1)
op("add_edges_from",5,{2:[1,2],0:[3]},w=1)
op("add_edges_from",1,[[1,None]])
for e in (0,1,'e'):
    for n in (1,3): op("add_node_to_edge",e,n)
for n in N+[9]:
    for st in (False,True):
        for re in (True,False): op("remove_node",n,strong=st,remove_empty=re)
op("remove_nodes_from",[1,9]); op("remove_nodes_from",[2,3],strong=True)
for e in (0,1,2,'e',9): op("remove_edge",e)
op("remove_edges_from",[0,1]); op("remove_edges_from",[0,9])
for e in (0,1,'e'):
    for n in (1,2):
        for re in (True,False): op("remove_node_from_edge",e,n,remove_empty=re)
op("remove_node_from_edge",9,1); op("remove_node_from_edge",0,9)
for (n1,n2) in ((1,2),(1,3),(2,3),(2,1),(1,1),(9,1)):
    for (e1,e2) in ((0,1),(1,0),(0,'e'),(0,0),(0,9)): op("double_edge_swap",n1,n2,e1,e2)
op("clear"); op("clear",remove_net_attr=False); op("clear_edges")
for rn in ("first","tuple","new"):
    for mr in ("first","union","intersection"):
        op("merge_duplicate_edges",rename=rn,merge_rule=mr); 
op("merge_duplicate_edges",multiplicity="m")
op("set_edge_attributes",{0:{"w":5},9:{"w":1}}); op("set_edge_attributes",7,name="w"); op("set_edge_attributes",{0:3},name="w"); op("set_edge_attributes",3)
op("set_node_attributes",{1:{"c":5},9:{"c":1}}); op("set_node_attributes",7,name="c"); op("set_node_attributes",{1:3,9:1},name="c"); op("set_node_attributes",3)
op("update",edges=[[1,2]],nodes=[3])
print(len(OPS),"ops")

def apply_impl(H,o):
    name,a,k=o
    a=copy.deepcopy(a); k=copy.deepcopy(k)
    if name=="add_edges_from": a=a[1:]
    with warnings.catch_warnings(record=True) as w:
        warnings.simplefilter("always")
        try: getattr(H,name)(*a,**k); return ("ok",len(w)>0,None)
        except Exception as e: return ("err",len(w)>0,e)
def apply_ref(R,o): 
    name,a,k=o
    return getattr(R,name)(*copy.deepcopy(a),**copy.deepcopy(k))

def build(hist):
    H=xgi.Hypergraph(); H["name"]="t"
    for i in hist:
        apply_impl(H,OPS[i])
    return H
def key(H): return repr((snapH(H), next(copy.copy(H._edge_uid))))
D=int(sys.argv[1]); seen={key(build([]))}; frontier=[[]]; mism=collections.Counter(); examples={}; trans=0
for depth in range(D):
    nxt=[]
    for h in frontier:
        for i,o in enumerate(OPS):
            H=build(h); R=Ref(); R.load(H); pre=snapH(H); preids=set(H.edges)
            ri=apply_impl(H,o); rr=apply_ref(R,o); trans+=1
            post=snapH(H); tag=None
            if rr[0]=="unspec": pass
            elif rr[0]=="err":
                if ri[0]!="err": tag="model-rejects-impl-accepts"
                elif not isinstance(ri[2],LIBERR): tag="wrong-error-type:"+type(ri[2]).__name__
            elif ri[0]=="err": tag="impl-raises:"+type(ri[2]).__name__
            else:
                if rr[0]=="auto":
                    newids=[e for e in H.edges if e not in preids or (e in preids and False)]
                    # adopt impl's new ids in order
                    autos=rr[1]
                    cand=[e for e in post[2] if e not in R.edge]
                    if len(cand)!=len(autos): tag="auto-count"
                    else:
                        for eid,(m,at) in zip(cand,autos):
                            if eid in preids: tag="auto-id-not-fresh"
                            R._addedge(eid,m,at)
                    warned = rr[2] if len(rr)>2 else False
                else: warned=rr[1]
                if tag is None:
                    rs=R.snap()
                    if rs[1]!=post[1] or rs[3]!=post[3]: tag="structure"
                    elif rs[4]!=post[4] or rs[5]!=post[5]: tag="attrs"
                    elif rs[6]!=post[6]: tag="netattr"
                    elif rs[0]!=post[0] or rs[2]!=post[2]: tag="order"
                    elif warned!=ri[1]: tag="warning:model=%s impl=%s"%(warned,ri[1])
            if tag:
                kk=(o[0],tag); mism[kk]+=1
                if kk not in examples: examples[kk]=([OPS[j] for j in h],o,pre[3],post[3],post[5], str(ri[2]) if ri[2] else None)
            def _inv(p):
                for n,es in p[1].items():
                    for e in es:
                        if e not in p[3] or n not in p[3][e]: return False
                for e,ns in p[3].items():
                    for n in ns:
                        if n not in p[1] or e not in p[1][n]: return False
                return True
            if post[0]!='BROKEN' and not _inv(post): mism[(o[0],'INTEGRITY-BROKEN')]+=1; continue
            if post[0]=='BROKEN': mism[(o[0],'BROKEN-STATE')]+=1; continue
            k2=key(H)
            if k2 not in seen: seen.add(k2); nxt.append(h+[i])
    frontier=nxt
print("states",len(seen),"transitions",trans)
for kk,c in sorted(mism.items(), key=lambda x:-x[1]): print(c,kk); print("     e.g.",examples.get(kk))
