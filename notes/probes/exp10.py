import warnings
warnings.simplefilter("ignore")
import xgi, copy, inspect
from xgi.exception import XGIError
def snapH(H):
    if isinstance(H, xgi.DiHypergraph):
        return (list(H._node), {k:(set(v['in']),set(v['out'])) for k,v in H._node.items()}, list(H._edge), {k:(set(v['in']),set(v['out'])) for k,v in H._edge.items()})
    return (list(H._node), {k:set(v) for k,v in H._node.items()}, list(H._edge), {k:set(v) for k,v in H._edge.items()})
args = {
 'add_edge': [([1,9],)], 'add_edges_from': [([[1,9]],)], 'add_node': [(9,)], 'add_node_to_edge': [(0,9)], 'add_nodes_from': [([9],)],
 'add_weighted_edges_from': [([(1,9,0.5)],)], 'cleanup': [()], 'clear': [()], 'clear_edges': [()], 'double_edge_swap': [(1,3,0,1)],
 'merge_duplicate_edges': [()], 'random_edge_shuffle': [(0,1)], 'remove_edge': [(0,)], 'remove_edges_from': [([0],)], 'remove_node': [(1,)],
 'remove_node_from_edge': [(0,1)], 'remove_nodes_from': [([1],)], 'update': [((),{'edges':[[1,9]]})], 'add_simplex': [([1,9],)], 'add_simplices_from': [([[1,9]],)],
 'add_weighted_simplices_from': [([(1,9,0.5)],)], 'close': [()], 'remove_simplex_id': [(0,)], 'remove_simplex_ids_from': [([0],)],
 'set_edge_attributes': [(1,'w')], 'set_node_attributes': [(1,'w')],
}
def mk(cls):
    if cls is xgi.DiHypergraph: return cls([([1,2],[3]),([3],[4,1]),([1,2],[3])])
    if cls is xgi.SimplicialComplex: return cls([[1,2,3],[3,4]])
    return cls([[1,2],[3,4,2],[1,2],[5]])
for cls in (xgi.Hypergraph, xgi.DiHypergraph, xgi.SimplicialComplex):
    for m in [m for m in dir(cls) if not m.startswith('_')]:
        if m in ('nodes','edges','num_nodes','num_edges','is_frozen','freeze','copy','dual','has_simplex'): continue
        for a in args.get(m, [()]):
            kw = {}
            if len(a)==2 and isinstance(a[1], dict) and isinstance(a[0], tuple): a, kw = a
            if cls is xgi.DiHypergraph:
                a = {'add_edge': (([1],[9]),), 'add_edges_from': ([([1],[9])],), 'add_node_to_edge': (0,9,'in'), 'remove_node_from_edge': (0,1,'in')}.get(m, a)
            H = mk(cls); b = snapH(H)
            try: getattr(H,m)(*a, **kw); r1='ok'
            except Exception as e: r1=type(e).__name__
            mut = snapH(H)!=b
            F = mk(cls); F.freeze(); b = snapH(F)
            try: getattr(F,m)(*a, **kw); r2='ok'
            except Exception as e: r2=type(e).__name__
            fm = snapH(F)!=b
            flag = "  <<<<<< VIOLATION" if (mut and (fm or r2!='XGIError')) else ""
            print(f"{cls.__name__:18s} {m:28s} unfrozen:{r1:14s} mutates={mut!s:5s} frozen:{r2:14s} mutated={fm}{flag}")
for f,kw in ((xgi.convert_labels_to_integers,{'in_place':True}),(xgi.largest_connected_hypergraph,{'in_place':True})):
    for cls in (xgi.Hypergraph, xgi.DiHypergraph, xgi.SimplicialComplex):
        F = mk(cls); F.freeze(); b=snapH(F)
        try: f(F,**kw); r='ok'
        except Exception as e: r=type(e).__name__
        print(f.__name__, cls.__name__, r, snapH(F)!=b)
