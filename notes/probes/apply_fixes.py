import re, sys, io
def sub(path, old, new, count=1):
    s = open(path).read()
    assert s.count(old) >= 1, (path, old[:60])
    if count == 0: s = s.replace(old, new)
    else:
        assert s.count(old) == count, (path, old[:60], s.count(old))
        s = s.replace(old, new)
    open(path, "w").write(s)

H = "xgi/core/hypergraph.py"; D = "xgi/core/dihypergraph.py"; S = "xgi/core/simplicialcomplex.py"
# D1
sub(D, """            for edge in edge_neighbors["in"].union(edge_neighbors["out"]):
                del self._edge[edge]
                del self._edge_attr[edge]
        else:  # weak removal""", """            for edge in edge_neighbors["in"].union(edge_neighbors["out"]):
                for node in self._edge[edge]["in"] - {n}:
                    self._node[node]["out"].discard(edge)
                for node in self._edge[edge]["out"] - {n}:
                    self._node[node]["in"].discard(edge)
                del self._edge[edge]
                del self._edge_attr[edge]
        else:  # weak removal""")
# D5 hypergraph
sub(H, "        if idx:  # set self._edge_uid correctly\n            update_uid_counter(self, idx)", "        if idx is not None:  # set self._edge_uid correctly\n            update_uid_counter(self, idx)")
sub(H, """                self._edge_attr[idx].update(attr)
                self._edge_attr[idx].update(eattr)

            try:
                e = next(new_edges)
            except StopIteration:
                if format2 or format4:
                    update_uid_counter(self, idx)
                break""", """                self._edge_attr[idx].update(attr)
                self._edge_attr[idx].update(eattr)

                if format2 or format4:
                    update_uid_counter(self, idx)

            try:
                e = next(new_edges)
            except StopIteration:
                break""")
sub(H, """        if edge not in self._edge:
            self._edge[edge] = set()
            self._edge_attr[edge] = {}
        if node not in self._node:""", """        if edge not in self._edge:
            self._edge[edge] = set()
            self._edge_attr[edge] = {}
            update_uid_counter(self, edge)
        if node not in self._node:""")
# D5 dihypergraph
sub(D, "        if idx:  # set self._edge_uid correctly\n            update_uid_counter(self, idx)", "        if idx is not None:  # set self._edge_uid correctly\n            update_uid_counter(self, idx)")
sub(D, """                self._edge_attr[idx].update(attr)
                self._edge_attr[idx].update(eattr)

            try:
                e = next(new_edges)
            except StopIteration:
                if format2 or format4:
                    update_uid_counter(self, idx)
                break""", """                self._edge_attr[idx].update(attr)
                self._edge_attr[idx].update(eattr)

                if format2 or format4:
                    update_uid_counter(self, idx)

            try:
                e = next(new_edges)
            except StopIteration:
                break""")
sub(D, """        if edge not in self._edge:
            self._edge[edge] = {"in": set(), "out": set()}
            self._edge_attr[edge] = {}
        if node not in self._node:""", """        if edge not in self._edge:
            self._edge[edge] = {"in": set(), "out": set()}
            self._edge_attr[edge] = {}
            update_uid_counter(self, edge)
        if node not in self._node:""")
# D6
sub(H, """                    self._node[n].add(idx)
                self._edge_attr[idx] = self._edge_attr_dict_factory()

                update_uid_counter(self, idx)""", """                    self._node[n].add(idx)
                self._edge_attr[idx] = self._edge_attr_dict_factory()
                self._edge_attr[idx].update(attr)

                update_uid_counter(self, idx)""")
# D3, D4
sub(S, """        if self.has_simplex(members):
            return

        if idx in self._edge.keys():  # check that uid is not present yet
            warn(f"uid {idx} already exists, cannot add simplex {members}")""", """        if not members or self.has_simplex(members):
            return

        if idx in self._edge.keys():  # check that uid is not present yet
            warn(f"uid {idx} already exists, cannot add simplex {members}")""")
sub(S, "combos = powerset(members, include_singletons=False)", "combos = powerset(\n                            members, include_singletons=False, max_size=max_order + 1\n                        )", count=0)
# D7
sub("xgi/stats/__init__.py", "        return pd.Series(self._val, name=self.name)", "        return pd.Series(self.asdict(), name=self.name)")
sub("xgi/stats/__init__.py", "        result = {s.name: s._val for s in self.stats}\n        series =", "        result = {s.name: s.asdict() for s in self.stats}\n        series =")
# D8
V = "xgi/core/views.py"
sub(V, "                if reduce(lambda x, y: x & y, (nodes[n] for n in e)) == {i}:", "                if reduce(lambda x, y: x & y, (nodes[n] for n in e), set(edges)) == {i}:")
sub(V, """                    if reduce(lambda x, y: x & y, (nodes[n] for n in e)) == set(
                        dups[frozenset(e)]
                    ):""", """                    if reduce(
                        lambda x, y: x & y, (nodes[n] for n in e), set(edges)
                    ) == set(dups[frozenset(e)]):""")
# D9
sub("xgi/algorithms/clustering.py", "    members = H.edges.members()\n\n    for n in H.nodes:\n        ev = list(memberships[n])", "    members = H.edges.members(dtype=dict)\n\n    for n in H.nodes:\n        ev = list(memberships[n])")
# D10
sub("xgi/convert/bipartite_graph.py", """        else:
            H.add_node_to_edge(v, u)""", """        else:
            if u in edge_set:
                u, v = v, u
            H.add_node_to_edge(v, u)""")
sub("xgi/convert/bipartite_graph.py", "    H.add_nodes_from(nodes)\n", "    H.add_nodes_from(nodes)\n    edge_set = set(edges)\n")
# D11
sub("xgi/convert/higher_order_network.py", """            (ee.members(e), e, deepcopy(attr)) for e, attr in ee.items()
        )
        return H

    elif isinstance(data, list):
        # edge list
        result = from_hyperedge_list(data, create_using)
        if not isinstance(create_using, SimplicialComplex):""", """            (ee.members(e), e, deepcopy(attr)) for e, attr in ee.items()
        )
        H._net_attr = deepcopy(data._net_attr)
        return H

    elif isinstance(data, list):
        # edge list
        result = from_hyperedge_list(data, create_using)
        if not isinstance(create_using, SimplicialComplex):""")
# D12
sub("xgi/readwrite/incidence.py", "np.loadtxt(path, comments=comments, delimiter=delimiter, encoding=encoding),", "np.loadtxt(\n            path, comments=comments, delimiter=delimiter, encoding=encoding, ndmin=2\n        ),")
# D14
sub("xgi/generators/uniform.py", """            edges = itertools.product((partition[i] for i in block_range))
            for e in edges:
                H.add_edge(e)""", """            edges = itertools.product(*(partition[i] for i in block))
            for e in edges:
                if len(set(e)) == m:
                    H.add_edge(e)""")
# D15
sub("xgi/generators/random.py", "            neighbors = np.random.choice(H.nodes, size=d - 1)", "            others = [n for n in H.nodes if n != node]\n            neighbors = np.random.choice(others, size=d - 1, replace=False)")
# D16
sub("xgi/generators/simple.py", """    while start_label + (m - c) <= c + (m - c) * l:
        H.add_edge(core_nodes + [start_label + i for i in range(m - c)])
        start_label = start_label + (m - c)""", """    for _ in range(l):
        H.add_edge(core_nodes + [start_label + i for i in range(m - c)])
        start_label = start_label + (m - c)""")
# D17
sub("xgi/communities/spectral.py", "    evals, eigs = eigsh(L, k=k, which=\"SA\")", "    v0 = None if seed is None else np.random.default_rng(seed).random(L.shape[0])\n    evals, eigs = eigsh(L, k=k, which=\"SA\", v0=v0)")
# D18
sub(H, "        self.clear = frozen\n        self.frozen = True", "        self.clear = frozen\n        self.clear_edges = frozen\n        self.double_edge_swap = frozen\n        self.random_edge_shuffle = frozen\n        self.frozen = True")
sub(D, "        self.clear = frozen\n        self.frozen = True", "        self.add_node_to_edge = frozen\n        self.remove_node_from_edge = frozen\n        self.clear = frozen\n        self.frozen = True")
sub(S, "        self.clear = frozen\n        self.frozen = True", "        self.clear = frozen\n        self.clear_edges = frozen\n        self.double_edge_swap = frozen\n        self.random_edge_shuffle = frozen\n        self.frozen = True")
print("patched")
