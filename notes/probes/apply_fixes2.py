def sub(path, old, new, count=1):
    s = open(path).read()
    assert s.count(old) == count, (path, old[:60], s.count(old))
    s = s.replace(old, new); open(path, "w").write(s)
H = "xgi/core/hypergraph.py"; D = "xgi/core/dihypergraph.py"; S = "xgi/core/simplicialcomplex.py"
# ---- D2 Hypergraph
sub(H, """        members = set(members)

        if idx in self._edge.keys():  # check that uid is not present yet""", """        members = set(members)
        if None in members:
            raise XGIError("None cannot be a node or edge")

        if idx in self._edge.keys():  # check that uid is not present yet""")
sub(H, """                try:
                    self._edge[idx] = set(members)
                except TypeError as e:
                    raise XGIError("Invalid ebunch format") from e
                for n in members:
                    if n not in self._node:
                        self._node[n] = set()
                        self._node_attr[n] = self._node_attr_dict_factory()
                    self._node[n].add(idx)
                self._edge_attr[idx] = self._edge_attr_dict_factory()
                self._edge_attr[idx].update(attr)""", """                try:
                    member_set = set(members)
                except TypeError as e:
                    raise XGIError("Invalid ebunch format") from e
                if None in member_set:
                    raise XGIError("None cannot be a node or edge")
                self._edge[idx] = member_set
                for n in members:
                    if n not in self._node:
                        self._node[n] = set()
                        self._node_attr[n] = self._node_attr_dict_factory()
                    self._node[n].add(idx)
                self._edge_attr[idx] = self._edge_attr_dict_factory()
                self._edge_attr[idx].update(attr)""")
sub(H, """                try:
                    self._edge[idx] = set(members)
                except TypeError as e:
                    raise XGIError("Invalid ebunch format") from e

                for n in members:""", """                try:
                    member_set = set(members)
                except TypeError as e:
                    raise XGIError("Invalid ebunch format") from e
                if None in member_set:
                    raise XGIError("None cannot be a node or edge")
                self._edge[idx] = member_set

                for n in members:""")
# ---- D2 DiHypergraph
sub(D, """        uid = next(self._edge_uid) if idx is None else idx

        if idx in self._edge.keys():  # check that uid is not present yet
            warn(f"uid {idx} already exists, cannot add edge {members}")
            return
""", """        tail, head = list(tail), list(head)
        if None in tail or None in head:
            raise XGIError("None cannot be a node or edge")

        uid = next(self._edge_uid) if idx is None else idx

        if idx in self._edge.keys():  # check that uid is not present yet
            warn(f"uid {idx} already exists, cannot add edge {members}")
            return
""")
sub(D, """                try:
                    self._edge[idx] = {"in": set(tail), "out": set(head)}
                except TypeError as e:
                    raise XGIError("Invalid ebunch format") from e

                for n in tail:""", """                try:
                    new_edge = {"in": set(tail), "out": set(head)}
                except TypeError as e:
                    raise XGIError("Invalid ebunch format") from e
                if None in new_edge["in"] or None in new_edge["out"]:
                    raise XGIError("None cannot be a node or edge")
                self._edge[idx] = new_edge

                for n in tail:""")
sub(D, """                try:
                    tail = members[0]
                    head = members[1]
                    self._edge[idx] = {"in": set(tail), "out": set(head)}
                except TypeError as e:
                    raise XGIError("Invalid ebunch format") from e
""", """                try:
                    tail = members[0]
                    head = members[1]
                    new_edge = {"in": set(tail), "out": set(head)}
                except TypeError as e:
                    raise XGIError("Invalid ebunch format") from e
                if None in new_edge["in"] or None in new_edge["out"]:
                    raise XGIError("None cannot be a node or edge")
                self._edge[idx] = new_edge
""")
# ---- D6 DiHypergraph format 5
sub(D, """                    self._node[n]["out"].add(idx)
                self._edge_attr[idx] = self._edge_attr_dict_factory()

                for n in head:""", """                    self._node[n]["out"].add(idx)
                self._edge_attr[idx] = self._edge_attr_dict_factory()
                self._edge_attr[idx].update(attr)

                for n in head:""")
# ---- D2 SimplicialComplex
sub(S, """        if not members or self.has_simplex(members):
            return

        if idx in self._edge.keys():  # check that uid is not present yet
            warn(f"uid {idx} already exists, cannot add simplex {members}")""", """        if None in members:
            raise XGIError("None cannot be a node or edge")

        if not members or self.has_simplex(members):
            return

        if idx in self._edge.keys():  # check that uid is not present yet
            warn(f"uid {idx} already exists, cannot add simplex {members}")""")
sub(S, """                try:
                    _ = frozenset(members)
                except TypeError as e:
                    raise XGIError("Invalid ebunch format") from e

                self._add_simplex(frozenset(members), idx)
""", """                try:
                    _ = frozenset(members)
                except TypeError as e:
                    raise XGIError("Invalid ebunch format") from e
                if None in _:
                    raise XGIError("None cannot be a node or edge")

                self._add_simplex(frozenset(members), idx, **attr)
""")
sub(S, """            try:
                self._edge[idx] = frozenset(members)
            except TypeError as e:
                raise XGIError("Invalid ebunch format") from e

            for n in members:""", """            try:
                member_set = frozenset(members)
            except TypeError as e:
                raise XGIError("Invalid ebunch format") from e
            if None in member_set:
                raise XGIError("None cannot be a node or edge")
            self._edge[idx] = member_set

            for n in members:""")
print("patched2")
