import warnings
warnings.simplefilter("ignore")
import xgi, random, itertools, collections, numpy as np, math
random.seed(17)
bad=collections.Counter(); ex={}
def rec(tag,*info):
    bad[tag]+=1
    if tag not in ex: ex[tag]=info
def close(a,b):
    if isinstance(a,float) or isinstance(b,float):
        if (isinstance(a,float) and math.isnan(a)) and (isinstance(b,float) and math.isnan(b)): return True
        return abs(a-b)<=1e-9*max(1,abs(a),abs(b))
    return a==b
def dense(M): return M.toarray() if hasattr(M,"toarray") else np.asarray(M)
for it in range(600):
    n=random.randint(2,5); labels=list(range(n))
    H=xgi.Hypergraph(); H.add_nodes_from(labels)
    m=random.randint(1,5)
    edges=[random.sample(labels,random.randint(1,min(4,n))) for _ in range(m)]
    H.add_edges_from(edges)
    # relabel
    nperm=labels[:]; random.shuffle(nperm)
    kind=random.choice(["perm","str","gap"])
    nmap={a:(b if kind=="perm" else "n%d"%b if kind=="str" else 10*b+3) for a,b in zip(labels,nperm)}
    eperm=list(range(m)); random.shuffle(eperm)
    ekind=random.choice(["perm","str","gap"])
    emap={a:(b if ekind=="perm" else "e%d"%b if ekind=="str" else 7*b+2) for a,b in zip(range(m),eperm)}
    R=xgi.Hypergraph()
    norder=labels[:]; random.shuffle(norder); R.add_nodes_from([nmap[x] for x in norder])
    eorder=list(range(m)); random.shuffle(eorder)
    for e in eorder:
        mem=[nmap[x] for x in edges[e]]; random.shuffle(mem); R.add_edge(mem, idx=emap[e])
    def cmpnode(name,f,**kw):
        try:
            a=f(H,**kw); b=f(R,**kw)
        except Exception as ex_:
            rec("EXC-"+name+":"+type(ex_).__name__); return
        for x in labels:
            if not close(a[x],b[nmap[x]]): rec(name,kind,ekind,H.edges.members(),a,b); return
    cmpnode("degree",lambda G:G.nodes.degree.asdict())
    cmpnode("and",lambda G:G.nodes.average_neighbor_degree.asdict())
    cmpnode("cc",xgi.clustering_coefficient)
    cmpnode("lcc(D9)",xgi.local_clustering_coefficient)
    for k in ("union","min","max"): cmpnode("tncc",xgi.two_node_clustering_coefficient,kind=k)
    cmpnode("katz",xgi.katz_centrality)
    for s in labels: cmpnode("sssp",lambda G,src: xgi.single_source_shortest_path_length(G, src if G is H else nmap[src]), src=s)
    ca={frozenset(nmap[x] for x in c) for c in xgi.connected_components(H)}; cb={frozenset(c) for c in xgi.connected_components(R)}
    if ca!=cb: rec("components")
    for kw in ({}, {"order":1}, {"max_order":1}, {"ignore_singletons":True}):
        try:
            a=xgi.density(H,**kw)
        except Exception as e1:
            try: xgi.density(R,**kw); rec("density-exc-asym")
            except Exception: pass
            continue
        if not close(a, xgi.density(R,**kw)): rec("density")
        if not close(xgi.incidence_density(H,**kw), xgi.incidence_density(R,**kw)): rec("incidence_density")
    for k in ("uniform","top-2","top-bottom"):
        try: a=xgi.degree_assortativity(H,kind=k,exact=True)
        except Exception as e1: continue
        b=xgi.degree_assortativity(R,kind=k,exact=True)
        if not close(float(a),float(b)): rec("assort",k,a,b)
    try:
        a=xgi.dynamical_assortativity(H); b=xgi.dynamical_assortativity(R)
        if not close(float(a),float(b)): rec("dynassort")
    except xgi.exception.XGIError: pass
    if kind!="str" or True:
        for f in (xgi.edit_simpliciality, xgi.face_edit_simpliciality, xgi.simplicial_fraction):
            if len(set(map(frozenset,edges)))!=len(edges): break
            a=f(H); b=f(R)
            if not close(float(a),float(b)): rec(f.__name__,H.edges.members(),a,b)
    if {emap[e] for e in H.edges.maximal()}!=set(R.edges.maximal()): rec("maximal")
    # matrices
    for order in (None,1,2):
        for sparse in (False,True):
            A,ia=xgi.adjacency_matrix(H,order=order,sparse=sparse,index=True); B,ib=xgi.adjacency_matrix(R,order=order,sparse=sparse,index=True)
            A=dense(A); B=dense(B)
            if not ia or not ib:
                if (A!=0).any() or (B!=0).any() or bool(ia)!=bool(ib): rec("adj-empty-idx")
                continue
            pos={v:k for k,v in ib.items()}
            P=[pos[nmap[ia[i]]] for i in range(len(ia))]
            if not np.array_equal(A, B[np.ix_(P,P)]): rec("adjacency",order,sparse)
            L,il=xgi.laplacian(H,order=order or 1,sparse=sparse,index=True); L2,il2=xgi.laplacian(R,order=order or 1,sparse=sparse,index=True)
            L=dense(L); L2=dense(L2)
            if il and il2:
                pos={v:k for k,v in il2.items()}; P=[pos[nmap[il[i]]] for i in range(len(il))]
                if not np.allclose(L, L2[np.ix_(P,P)]): rec("laplacian")
print(bad)
for k,v in ex.items(): print(k,"\n    ",str(v)[:500])
