import warnings
warnings.simplefilter("ignore")
import xgi, random, tempfile, os, itertools, collections
random.seed(7)
d=tempfile.mkdtemp(); p=os.path.join(d,"x.json")
bad=collections.Counter(); ex={}
def rec(tag,*info):
    bad[tag]+=1
    if tag not in ex: ex[tag]=info
def fullD(D): return (dict(D.nodes.dimemberships()), dict(D.edges.dimembers(dtype=dict)), {n:dict(D.nodes[n]) for n in D.nodes}, {e:dict(D.edges[e]) for e in D.edges}, dict(D._net_attr))
def full(H): return (dict(H.nodes.memberships()), dict(H.edges.members(dtype=dict)), {n:dict(H.nodes[n]) for n in H.nodes}, {e:dict(H.edges[e]) for e in H.edges}, dict(H._net_attr))
for it in range(1500):
    labels=random.choice([[1,2,3],["a","b","c"]])
    D=xgi.DiHypergraph(); D.add_nodes_from(random.sample(labels,random.randint(0,3)))
    ids=[3,0,"x",1]; random.shuffle(ids)
    for k in range(random.randint(0,3)):
        D.add_edge((random.sample(labels,random.randint(0,2)), random.sample(labels,random.randint(0,2))), idx=ids[k])
        if random.random()<.4: D.set_edge_attributes({ids[k]:{"w":2}})
    if random.random()<.4 and D.num_nodes: D.set_node_attributes({list(D.nodes)[0]:{"c":1}})
    if random.random()<.5: D["name"]="d"
    try:
        R=xgi.from_hif_dict(xgi.to_hif_dict(D))
        if type(R) is not xgi.DiHypergraph or fullD(R)!=fullD(D): rec("di_hif",fullD(D),fullD(R))
        xgi.write_hif(D,p); R=xgi.read_hif(p)
        if fullD(R)!=fullD(D): rec("di_hif_file",fullD(D),fullD(R))
        bl=xgi.to_bipartite_edgelist(D)
        if bl:
            R=xgi.from_bipartite_edgelist(bl)
            if dict(R.edges.dimembers(dtype=dict))!={e:m for e,m in D.edges.dimembers(dtype=dict).items() if m[0] or m[1]}: rec("di_bip",fullD(D))
        G,nd,ed=xgi.to_bipartite_graph(D,index=True); R=xgi.from_bipartite_graph(G)
        got={ed[e]:({nd[n] for n in m[0]},{nd[n] for n in m[1]}) for e,m in R.edges.dimembers(dtype=dict).items()}
        exp={e:m for e,m in D.edges.dimembers(dtype=dict).items() if m[0] or m[1]}
        if got!=exp: rec("di_bipgraph",exp,got)
        H=xgi.Hypergraph(D)
        if dict(H.edges.members(dtype=dict))!={e:m[0]|m[1] for e,m in D.edges.dimembers(dtype=dict).items()} or set(H.nodes)!=set(D.nodes) or {e:dict(H.edges[e]) for e in H.edges}!={e:dict(D.edges[e]) for e in D.edges} or H._net_attr!=D._net_attr or {n:dict(H.nodes[n]) for n in H.nodes}!={n:dict(D.nodes[n]) for n in D.nodes}: rec("H(D)",fullD(D),full(H))
        R=xgi.convert_labels_to_integers(D)
    except Exception as e: rec("EXC:"+type(e).__name__+":"+str(e)[:60],fullD(D))
    # SC
    S=xgi.SimplicialComplex(); S.add_nodes_from(random.sample([1,2,3,4],random.randint(0,4)))
    for k in range(random.randint(0,3)):
        S.add_simplex(random.sample([1,2,3,4],random.randint(1,4)), w=k)
    if random.random()<.5: S["name"]="s"
    try:
        R=xgi.from_hif_dict(xgi.to_hif_dict(S))
        if type(R) is not xgi.SimplicialComplex: rec("sc_hif_type")
        a,b=full(S),full(R)
        if a[:4]!=b[:4]: rec("sc_hif",a,b)
        if a[4]!=b[4]: rec("sc_hif_netattr(D11)")
        H=xgi.Hypergraph(S)
        if full(H)!=full(S): rec("H(S)",full(S),full(H))
        S2=xgi.SimplicialComplex(H)
        if full(S2)[:4]!=full(S)[:4]: rec("SC(H(S))",full(S),full(S2))
    except Exception as e: rec("EXC-SC:"+type(e).__name__+":"+str(e)[:60],full(S))
print(bad)
for k,v in ex.items(): print(k,"\n    ",str(v)[:700])
