import warnings
warnings.simplefilter("ignore")
import matplotlib; matplotlib.use("Agg")
import matplotlib.pyplot as plt
import xgi, copy, inspect, tempfile, os, numpy as np, networkx as nx
def snap(H):
    uid = next(copy.copy(H._edge_uid))
    if isinstance(H, xgi.DiHypergraph):
        st = ([(k,(frozenset(v['in']),frozenset(v['out']))) for k,v in H._node.items()], [(k,(frozenset(v['in']),frozenset(v['out']))) for k,v in H._edge.items()])
    else:
        st = ([(k,frozenset(v)) for k,v in H._node.items()], [(k,frozenset(v)) for k,v in H._edge.items()])
    return (st, copy.deepcopy(dict(H._node_attr)), copy.deepcopy(dict(H._edge_attr)), copy.deepcopy(H._net_attr), uid, repr(list(H._node_attr)), repr(list(H._edge_attr)))
def mkH():
    H = xgi.Hypergraph(); H.add_nodes_from([3,1,2,4,5,6]); H.add_edges_from([([1,2,3],0,{"weight":2,"l":[1]}),([3,4],1,{}),([1,2,3],2,{}),([5],3,{}),([1,2],4,{})]); H.add_node(7, c="r"); H["name"]="t"; return H
def mkS():
    S = xgi.SimplicialComplex([[1,2,3],[3,4]]); S.add_node(9); S["name"]="s"; return S
def mkD():
    return xgi.DiHypergraph([([1,2],[3]),([3],[4,1])], name="d")
d = tempfile.mkdtemp()
special = {
 'node_connected_component': dict(n=1), 'edge_neighborhood': dict(n=1), 'single_source_shortest_path_length': dict(source=1),
 'num_edges_order': dict(d=1), 'is_possible_order': dict(d=1), 'adjacency_tensor': dict(order=1), 'multiorder_laplacian': dict(orders=[1,2], weights=[1,1]),
 'cut_to_order': dict(order=1), 'k_skeleton': dict(order=1), 'node_swap': dict(nid1=1, nid2=4), 'shuffle_hyperedges': dict(order=1, p=1.0),
 'simulate_kuramoto': dict(k2=1,k3=1,timesteps=5), 'simulate_simplicial_kuramoto': dict(orientations=None, order=1, omega=[], sigma=1, theta0=[], T=0.1, n_steps=3),
 'edge_positions_from_barycenters': 'pos', 'draw_node_labels': 'pos', 'draw_hyperedge_labels': 'pos',
 'subhypergraph': dict(nodes=[1,2,3]), 'spectral_clustering': dict(k=2), 'update_uid_counter': None, 'empirical_subsets_filter': 'dag',
}
res = []
for n,f in sorted(vars(xgi).items()):
    if n.startswith("_") or inspect.ismodule(f) or inspect.isclass(f) or not callable(f): continue
    ps = list(inspect.signature(f).parameters)
    if not ps or ps[0] not in ("H","S","SC","net","data"): continue
    if n in ("update_uid_counter","from_hif_dict","from_hypergraph_dict"): continue
    for mk in (mkH, mkS, mkD):
        H = mk(); b = snap(H)
        kw = special.get(n, {})
        if kw == 'pos': kw = dict(pos=xgi.circular_layout(H)) if n!='edge_positions_from_barycenters' else dict(node_pos=xgi.circular_layout(H))
        if kw == 'dag': kw = dict(dag=xgi.to_encapsulation_dag(H) if mk is mkH else nx.DiGraph())
        if n.startswith("write_"): kw = dict(path=os.path.join(d,"x") if 'collection' not in n else d)
        if n == 'write_hif_collection': H_arg = [H]
        if n == 'simulate_simplicial_kuramoto' : continue
        try:
            if n.startswith("draw"):
                fig, ax = plt.subplots(); 
                r = f(H, **kw); plt.close('all')
            else:
                r = f(H, **kw)
            if inspect.isgenerator(r): list(r)
            st='ok'
        except Exception as e: st=type(e).__name__+": "+str(e)[:60]
        a = snap(H)
        if a!=b: print("MUTATED", n, mk.__name__, st, [i for i,(x,y) in enumerate(zip(a,b)) if x!=y])
        res.append((n, mk.__name__, st))
import collections
print(collections.Counter(s[:10] for _,_,s in res))
for n,m,s in res:
    if s!='ok' and m=='mkH': print(n,m,s)
