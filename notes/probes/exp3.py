import warnings
warnings.simplefilter("ignore")
import xgi, pickle, copy, numpy as np, networkx as nx, pandas as pd
def tryit(name, f):
    try:
        r = f(); print("OK  ", name, "->", r)
    except Exception as e:
        print("EXC ", name, "->", type(e).__name__, e)
def after(name, H, members=(97,98)):
    before = H.edges.members(dtype=dict) if not isinstance(H, xgi.DiHypergraph) else H.edges.dimembers(dtype=dict)
    with warnings.catch_warnings(record=True) as w:
        warnings.simplefilter("always")
        if isinstance(H, xgi.DiHypergraph): H.add_edge(([97],[98]))
        elif isinstance(H, xgi.SimplicialComplex): H.add_simplex([97,98])
        else: H.add_edge([97,98])
    aft = H.edges.members(dtype=dict) if not isinstance(H, xgi.DiHypergraph) else H.edges.dimembers(dtype=dict)
    lost = {k:v for k,v in before.items() if aft.get(k)!=v}
    print(f"{name:45s} overwritten={lost} n_before={len(before)} n_after={len(aft)} warns={[str(x.message) for x in w]}")
H = xgi.Hypergraph(); H.add_edge([1,2], idx=0); after("add_edge idx=0", H)
H = xgi.Hypergraph(); H.add_edges_from([([1,2],5),([2,3],2)]); after("format2 decreasing", H); 
H = xgi.Hypergraph(); H.add_edges_from([([1,2],5,{}),([2,3],2,{})]); after("format4 decreasing", H); after("   again",H); after("   again",H); after("   again",H)
H = xgi.Hypergraph(); H.add_node_to_edge(0, 1); after("add_node_to_edge", H)
H = xgi.from_incidence_matrix(np.array([[1,0],[1,1]])); after("from_incidence_matrix", H)
H = xgi.Hypergraph(np.array([[1,0],[1,1]])); after("Hypergraph(ndarray)", H)
H = xgi.from_bipartite_edgelist([(1,0),(2,0),(2,1)]); after("from_bipartite_edgelist", H)
G = nx.Graph(); G.add_nodes_from([10,11],bipartite=0); G.add_nodes_from([0,1],bipartite=1); G.add_edges_from([(10,0),(11,0),(11,1)])
H = xgi.from_bipartite_graph(G); after("from_bipartite_graph", H)
H = xgi.from_hif_dict({"incidences":[{"edge":0,"node":1},{"edge":1,"node":1}]}); after("from_hif_dict", H)
H = xgi.Hypergraph(pd.DataFrame({"n":[1,2,2],"e":[0,0,1]})); after("dataframe", H)
H = xgi.from_hypergraph_dict(xgi.to_hypergraph_dict(xgi.Hypergraph([[1,2]])), nodetype=int, edgetype=int); after("hypergraph_dict edgetype=int", H)
H = xgi.from_hypergraph_dict(xgi.to_hypergraph_dict(xgi.Hypergraph([[1,2],[2,3]])), nodetype=int, edgetype=int); after("hypergraph_dict edgetype=int 2 edges", H)
H0 = xgi.Hypergraph(); H0.add_edges_from({5:[1,2], 2:[2,3]}); after("format5 decreasing", H0)
H0 = xgi.Hypergraph(); H0.add_edges_from({5:[1,2], 2:[2,3]}); H=xgi.Hypergraph(H0); after("Hypergraph(H) ids 5,2", H); after("  again",H); after("  again",H);after("  again",H)
H0 = xgi.Hypergraph(); H0.add_edges_from({5:[1,2], 2:[2,3]}); H=H0.copy(); after("copy ids 5,2", H)
H=pickle.loads(pickle.dumps(H0)); after("pickle ids 5,2", H)
H0 = xgi.Hypergraph(); H0.add_edges_from({5:[1,2], 2:[2,3]}); H=xgi.convert_labels_to_integers(H0); after("convert_labels", H)
H0 = xgi.Hypergraph(); H0.add_edges_from({5:[1,2], 2:[2,3]}); H=H0.cleanup(in_place=False); after("cleanup", H)
H0 = xgi.Hypergraph([[1,2],[1,2],[3,4]]); H0.merge_duplicate_edges(rename="new"); after("merge new", H0)
H0 = xgi.Hypergraph([[1,2],[1,2],[3,4]]); H0.merge_duplicate_edges(rename="tuple"); after("merge tuple", H0)
H0 = xgi.Hypergraph([[1,2],[3,4]]); H = H0.dual(); after("dual", H)
H0 = xgi.Hypergraph(); H0.add_edges_from({1:[1,2], 0:[3,4]}); H = H0.dual(); after("dual2", H)
H = xgi.Hypergraph(); H.add_edge([1,2], idx=2.0); after("float idx 2.0", H); after("  again",H); after("  again",H)
H = xgi.Hypergraph(); H.add_edge([1,2], idx=True); after("bool idx", H); after("  again",H);
H = xgi.Hypergraph(); H.add_edge([1,2], idx=-3); after("neg idx", H);
H = xgi.Hypergraph(); H.add_edge([1,2], idx="0"); after("str idx", H);
H = xgi.Hypergraph(); tryit("frozenset idx", lambda: H.add_edge([1,2], idx=frozenset([1]))); print(H._edge, H._edge_attr)
print("== DiH")
D = xgi.DiHypergraph(); D.add_edge(([1],[2]), idx=0); after("di add_edge idx=0", D)
D = xgi.DiHypergraph(); D.add_edges_from([(([1],[2]),5),(([2],[3]),2)]); after("di format2 decreasing", D); after("  again",D); after("  again",D); after("  again",D)
D = xgi.DiHypergraph(); D.add_node_to_edge(0,1,"in"); after("di add_node_to_edge", D)
D = xgi.from_bipartite_edgelist([(1,0,"in"),(2,0,"out")]); after("di from_bipartite_edgelist", D)
print("== SC")
S = xgi.SimplicialComplex(); S.add_simplices_from([([1,2],5),([2,3],2)]); after("sc format2 decreasing", S)
S = xgi.SimplicialComplex(); S.add_simplices_from({5:[1,2,3]}); after("sc format5", S); print(S._edge)
S = xgi.SimplicialComplex(); S.add_simplices_from([([1,2,3],1)]); print(S._edge); after("sc format2 id=1 with faces", S); print(S._edge)
S = xgi.SimplicialComplex(); S.add_simplex([1,2,3], idx=1); print(S._edge); after("sc add_simplex id=1 with faces", S); print(S._edge)
S = xgi.SimplicialComplex(); S.add_simplices_from([([1,2,3],3),([4,5],0)]);  print(S._edge)
S = xgi.SimplicialComplex(); S.add_simplices_from([([4,5],0), ([1,2,3],3)]);  print(S._edge)
S = xgi.SimplicialComplex(); S.add_simplices_from({"a":[1,2,3], 0: [7,8]}); print(S._edge)
