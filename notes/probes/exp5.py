import warnings
warnings.simplefilter("ignore")
import xgi, numpy as np, networkx as nx, itertools, random
def tryit(name, f):
    try:
        r = f(); print("OK  ", name, "->", r)
    except Exception as e:
        print("EXC ", name, "->", type(e).__name__, e)
print("== C13 B_k B_{k+1} == 0 on all complexes over 4 vertices with random orientations")
import itertools
verts=[0,1,2,3]
subsets=[frozenset(c) for r in (2,3,4) for c in itertools.combinations(verts,r)]
bad=0; n=0
for mask in range(0):
    gens=[s for i,s in enumerate(subsets) if mask>>i&1]
    S=xgi.SimplicialComplex(); S.add_nodes_from(verts); S.add_simplices_from([list(g) for g in gens])
    n+=1
    for trial in range(2):
        ori={e: random.randint(0,1) for e in S.edges} if trial else None
        Bs=[xgi.boundary_matrix(S,k,ori) for k in (1,2,3,4)]
        for a,b in zip(Bs,Bs[1:]):
            if a.shape[1]!=b.shape[0]: bad+=1; print("shape",a.shape,b.shape); continue
            if a.size and b.size and np.abs(a@b).max()>0: bad+=1; print("nonzero", gens, ori)
print(n,"complexes; bad=",bad)
S=xgi.SimplicialComplex(); S.add_simplex(["b",1,"a"]); S.add_simplex([1,2,"a"])
tryit("mixed labels B1B2", lambda: np.abs(xgi.boundary_matrix(S,1)@xgi.boundary_matrix(S,2)).max())
tryit("order0", lambda: xgi.boundary_matrix(S,0))
tryit("hodge0", lambda: xgi.hodge_laplacian(S,0))
S=xgi.SimplicialComplex(); S.add_simplices_from({"x":[1,2,3],"y":[3,4]}); 
tryit("explicit ids", lambda: np.abs(xgi.boundary_matrix(S,1)@xgi.boundary_matrix(S,2)).max())
print("== C16 HSBM p=1")
tryit("HSBM p=1", lambda: xgi.uniform_HSBM(4,2,np.array([[1,0.],[0.,1]]),[2,2],seed=0).edges.members())
tryit("HSBM p=.5", lambda: xgi.uniform_HSBM(4,2,np.array([[.5,0.5],[0.5,.5]]),[2,2],seed=0).edges.members())
tryit("ER q=1 multi", lambda: len(xgi.uniform_erdos_renyi_hypergraph(3,2,1.0,multiedges=True,seed=0).edges))
tryit("fast p=1", lambda: len(xgi.fast_random_hypergraph(4,[1.0,1.0],seed=0).edges))
tryit("fast order int", lambda: len(xgi.fast_random_hypergraph(4,1.0,order=2,seed=0).edges))
tryit("random_hypergraph p=0", lambda: len(xgi.random_hypergraph(4,[0.0],seed=0).edges))
tryit("ws", lambda: xgi.watts_strogatz_hypergraph(6,3,2,1,1.0,seed=1).edges.members())
tryit("ring small", lambda: xgi.ring_lattice(4,3,2,0).edges.members())
tryit("chung_lu", lambda: xgi.chung_lu_hypergraph({0:2,1:1,2:1},{0:2,1:2},seed=1).edges.members(dtype=dict))
tryit("config", lambda: xgi.uniform_hypergraph_configuration_model({0:2,1:1,2:1,3:2},2,seed=1).edges.members())
tryit("complete", lambda: len(xgi.complete_hypergraph(4,max_order=3,include_singletons=True).edges))
print("== C17 spectral")
H=xgi.Hypergraph([[0,1,2],[2,3],[3,4,5],[5,6],[6,7,0],[1,4]])
r=[xgi.spectral_clustering(H,k=3,seed=1) for _ in range(4)]
print([x==r[0] for x in r]); print(r[0]); print(r[1])
H=xgi.random_hypergraph(12,[0.2,0.05],seed=3); H.cleanup()
r=[xgi.spectral_clustering(H,k=2,seed=1) for _ in range(4)]
print([x==r[0] for x in r])
import inspect
seeded=[(n,f) for n,f in vars(xgi).items() if callable(f) and not inspect.isclass(f) and 'seed' in inspect.signature(f).parameters]
print([n for n,_ in seeded])
