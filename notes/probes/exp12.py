import warnings
warnings.simplefilter("ignore")
import xgi
def tryit(name, f):
    try:
        r = f(); print("OK  ", name, "->", r)
    except Exception as e:
        print("EXC ", name, "->", type(e).__name__, e)
D = xgi.DiHypergraph([([1,2],[3]),([3],[4,1]),([7],[8])])
tryit("di edges duplicates", lambda: D.edges.duplicates())
tryit("di nodes duplicates", lambda: D.nodes.duplicates())
tryit("di neighbors", lambda: D.nodes.neighbors(1))
tryit("di lookup", lambda: D.edges.lookup([1,2,3]))
tryit("di isolates", lambda: D.nodes.isolates())
tryit("di empty", lambda: D.edges.empty())
tryit("di filterby", lambda: D.nodes.filterby("in_degree", 1))
tryit("di multi", lambda: D.nodes.multi(["in_degree","out_degree"]).asdict())
H = xgi.Hypergraph([[1,2],[2,3]])
tryit("H.nodes([1,2]).isolates(ignore_singletons=True)", lambda: xgi.Hypergraph([[1,2],[3]]).nodes([1,2]).isolates(ignore_singletons=True))
tryit("subview duplicates", lambda: xgi.Hypergraph([[1,2],[1,2],[3]]).edges([2]).duplicates())
tryit("filterby_attr", lambda: (lambda H:(H.set_node_attributes({1:{"a":1},2:{"a":2}}), H.nodes.filterby_attr("a",1,"geq"), H.nodes.filterby_attr("a",1,"lt",missing=0)))(H))
tryit("nodes & op", lambda: H.nodes & [1,2,9])
tryit("nodes | op", lambda: H.nodes([1]) | H.nodes([3]))
tryit("views eq", lambda: (H.nodes == {1,2,3}, H.edges == [0,1]))
tryit("degree order weight", lambda: H.nodes.degree(order=1, weight="w").asdict())
tryit("stat getitem", lambda: H.nodes.degree[1])
tryit("H.degree(1)", lambda: H.degree(1))
