import warnings
warnings.simplefilter("ignore")
import xgi, random, itertools, collections, numpy as np, pandas as pd
random.seed(13)
bad=collections.Counter(); ex={}
def rec(tag,*info):
    bad[tag]+=1
    if tag not in ex: ex[tag]=info
for it in range(1500):
    labels=random.choice([[0,1,2,3],list("abcd"),[10,3,7,1]])
    H=xgi.Hypergraph(); H.add_nodes_from(random.sample(labels,random.randint(0,4)))
    ids=[4,0,2,1,3]; random.shuffle(ids)
    for k in range(random.randint(0,5)):
        H.add_edge(random.sample(labels,random.randint(1,3)), idx=ids[k])
        if random.random()<.5: H.set_edge_attributes({ids[k]:{"w":random.randint(1,3)}})
    mem=H.edges.members(dtype=dict); ms=H.nodes.memberships()
    try:
        if list(H.nodes)!=list(ms) or list(H.edges)!=list(mem): rec("order")
        deg=H.nodes.degree; 
        if deg.asdict()!={n:len(ms[n]) for n in H.nodes}: rec("degree")
        if H.edges.size.asdict()!={e:len(mem[e]) for e in H.edges}: rec("size")
        if sum(deg.aslist())!=sum(H.edges.size.aslist()): rec("sum")
        for st in (deg, H.nodes.degree(order=1), H.nodes.degree(weight="w"), H.edges.size, H.edges.order, H.edges.size(degree=1), H.nodes.average_neighbor_degree):
            d=st.asdict(); 
            if list(d)!=list(st.view): rec("asdict-order",st.name)
            if st.aslist()!=list(d.values()): rec("aslist",st.name)
            if list(st.asnumpy())!=list(d.values()): rec("asnumpy",st.name)
            sp=st.aspandas()
            if dict(sp)!=d: rec("aspandas-values",st.name)
            if list(sp.index)!=list(d): rec("aspandas-order(D7)")
        wdeg=H.nodes.degree(weight="w").asdict()
        if wdeg!={n:sum(H.edges[e].get("w",1) for e in ms[n]) for n in H.nodes}: rec("wdegree")
        if H.nodes.degree(order=1).asdict()!={n:sum(1 for e in ms[n] if len(mem[e])==2) for n in H.nodes}: rec("odegree")
        m=H.nodes.multi(["degree","average_neighbor_degree"])
        if m.asdict()!={n:{"degree":deg[n],"average_neighbor_degree":H.nodes.average_neighbor_degree[n]} for n in H.nodes}: rec("multi-asdict")
        if m.aslist()!=[list(v.values()) for v in m.asdict().values()]: rec("multi-aslist")
        if m.asdict(transpose=True)!={"degree":deg.asdict(),"average_neighbor_degree":H.nodes.average_neighbor_degree.asdict()}: rec("multi-T")
        for mode,f in (("eq",lambda v,x:v==x),("neq",lambda v,x:v!=x),("lt",lambda v,x:v<x),("gt",lambda v,x:v>x),("leq",lambda v,x:v<=x),("geq",lambda v,x:v>=x)):
            for x in (0,1,2):
                if list(H.nodes.filterby("degree",x,mode))!=[n for n in H.nodes if f(len(ms[n]),x)]: rec("filterby",mode,x)
        if list(H.nodes.filterby("degree",(1,2),"between"))!=[n for n in H.nodes if 1<=len(ms[n])<=2]: rec("between")
        if list(H.edges.filterby_attr("w",2,"geq"))!=[e for e in H.edges if H.edges[e].get("w") is not None and H.edges[e]["w"]>=2]: rec("filterby_attr")
        if list(H.edges.filterby_attr("w",2,"lt",missing=0))!=[e for e in H.edges if H.edges[e].get("w",0)<2]: rec("filterby_attr missing")
        for n in H.nodes:
            for s in (1,2):
                exp={x for x in H.nodes if x!=n and len(ms[n]&ms[x])>=s}
                if H.nodes.neighbors(n,s)!=exp: rec("node-neighbors",s)
        for e in H.edges:
            for s in (1,2):
                exp={x for x in H.edges if x!=e and len(mem[e]&mem[x])>=s}
                if H.edges.neighbors(e,s)!=exp: rec("edge-neighbors",s, mem, e, H.edges.neighbors(e,s), exp)
        for r in range(0,4):
            for S in itertools.combinations(list(H.nodes),r):
                if list(H.edges.lookup(S))!=[e for e in H.edges if mem[e]==set(S)]: rec("lookup")
        dups=list(H.edges.duplicates()); cls=collections.defaultdict(list)
        for e,mm in mem.items(): cls[frozenset(mm)].append(e)
        if sorted(map(str,dups))!=sorted(str(x) for c in cls.values() for x in sorted(c)[1:]): rec("duplicates")
        if list(H.nodes.isolates())!=[n for n in H.nodes if not ms[n]]: rec("isolates")
        if list(H.nodes.isolates(ignore_singletons=True))!=[n for n in H.nodes if all(len(mem[e])==1 for e in ms[n])]: rec("isolates-ign")
        if list(H.edges.singletons())!=[e for e in H.edges if len(mem[e])==1]: rec("singletons")
        mx=[e for e in H.edges if not any(mem[e]<mem[f] for f in H.edges)]
        if list(H.edges.maximal())!=mx: rec("maximal", mem, list(H.edges.maximal()), mx)
        mxs=[e for e in H.edges if not any(f!=e and mem[e]<=mem[f] for f in H.edges)]
        if list(H.edges.maximal(strict=True))!=mxs: rec("maximal-strict")
    except Exception as e: rec("EXC:"+type(e).__name__+str(e)[:50], mem)
print(bad)
for k,v in ex.items(): print(k,"\n    ",str(v)[:600])
