import warnings
warnings.simplefilter("ignore")
import xgi, random, numpy as np, networkx as nx, itertools, collections
def snap(x):
    if isinstance(x,(xgi.Hypergraph,)): return ("net",list(x.nodes),[(e,tuple(sorted(map(repr,m)))) for e,m in x.edges.members(dtype=dict).items()])
    if isinstance(x,dict): return ("dict",[(repr(k),np.asarray(v).tolist() if not isinstance(v,dict) else snap(v)) for k,v in x.items()])
    if isinstance(x,tuple): return tuple(snap(y) for y in x)
    return repr(x)
H0=xgi.Hypergraph([[0,1,2],[2,3],[3,4,5],[5,6],[6,7,0],[1,4]])
S0=xgi.SimplicialComplex([[0,1,2],[2,3]])
G0=nx.erdos_renyi_graph(6,0.6,seed=1)
calls={
 'spectral_clustering': lambda s: xgi.spectral_clustering(H0,k=3,seed=s),
 'random_layout': lambda s: xgi.random_layout(H0,seed=s),
 'pairwise_spring_layout': lambda s: xgi.pairwise_spring_layout(H0,seed=s),
 'barycenter_spring_layout': lambda s: xgi.barycenter_spring_layout(H0,seed=s),
 'weighted_barycenter_spring_layout': lambda s: xgi.weighted_barycenter_spring_layout(H0,seed=s),
 'bipartite_spring_layout': lambda s: xgi.bipartite_spring_layout(H0,seed=s),
 'fast_random_hypergraph': lambda s: xgi.fast_random_hypergraph(6,[0.3,0.2],seed=s),
 'random_hypergraph': lambda s: xgi.random_hypergraph(6,[0.3,0.2],seed=s),
 'chung_lu_hypergraph': lambda s: xgi.chung_lu_hypergraph({i:2 for i in range(6)},{i:3 for i in range(4)},seed=s),
 'dcsbm_hypergraph': lambda s: xgi.dcsbm_hypergraph({i:2 for i in range(6)},{i:3 for i in range(4)},{i:i%2 for i in range(6)},{i:i%2 for i in range(4)},np.array([[5,1],[1,5]]),seed=s),
 'watts_strogatz_hypergraph': lambda s: xgi.watts_strogatz_hypergraph(8,3,2,1,0.5,seed=s),
 'shuffle_hyperedges': lambda s: xgi.shuffle_hyperedges(H0,1,0.8,seed=s),
 'random_simplicial_complex': lambda s: xgi.random_simplicial_complex(6,[0.4,0.3],seed=s),
 'random_flag_complex_d2': lambda s: xgi.random_flag_complex_d2(6,0.5,seed=s),
 'random_flag_complex': lambda s: xgi.random_flag_complex(6,0.5,max_order=3,seed=s),
 'flag_complex': lambda s: xgi.flag_complex(G0,max_order=3,ps=[0.5,0.5],seed=s),
 'flag_complex_d2': lambda s: xgi.flag_complex_d2(G0,p2=0.5,seed=s),
 'uniform_hypergraph_configuration_model': lambda s: xgi.uniform_hypergraph_configuration_model({i:2 for i in range(6)},3,seed=s),
 'uniform_HSBM': lambda s: xgi.uniform_HSBM(6,2,np.array([[.5,.2],[.2,.5]]),[3,3],seed=s),
 'uniform_HPPM': lambda s: xgi.uniform_HPPM(8,2,3,0.5,seed=s),
 'uniform_erdos_renyi_hypergraph': lambda s: xgi.uniform_erdos_renyi_hypergraph(6,3,0.3,seed=s),
}
perts={
 'none': lambda: None, 'py': lambda: random.random(), 'np': lambda: np.random.random(), 'pyseed': lambda: random.seed(99), 'npseed': lambda: np.random.seed(99),
 'other': lambda: xgi.random_hypergraph(5,[0.5],seed=7), 'otherNP': lambda: xgi.random_simplicial_complex(5,[0.5],seed=7),
}
bad=collections.Counter()
for name,f in calls.items():
    for s in (0,1,42):
        for pn,p in perts.items():
            a=snap(f(s)); p(); f(s+1); b=snap(f(s))
            if a!=b: bad[(name,pn)]+=1
print(bad)
