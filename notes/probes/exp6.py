import warnings
warnings.simplefilter("ignore")
import xgi, numpy as np, networkx as nx, itertools, random, math
random.seed(1)
def rand_h(n=5, m=4, maxsize=4, multi=True):
    H=xgi.Hypergraph(); H.add_nodes_from(range(n))
    for _ in range(random.randint(0,m)):
        k=random.randint(1,maxsize); H.add_edge(random.sample(range(n),min(k,n)))
    return H
def brute_sed(H,min_size,excl):
    E=[frozenset(e) for e in H.edges.members()]
    Es=set(E)
    maxi=[e for e in Es if not any(e<f for f in Es) and len(e)>=min_size+excl]
    miss=set()
    for M in maxi:
        for r in range(min_size,len(M)):
            for c in itertools.combinations(sorted(M),r):
                if frozenset(c) not in Es: miss.add(frozenset(c))
    return len(miss) if maxi else float('nan')
bad=0;tot=0
for it in range(3000):
    H=rand_h()
    E=[frozenset(e) for e in H.edges.members()]
    if len(set(E))!=len(E): continue
    for ms in (1,2,3):
        for ex in (True,False):
            tot+=1
            a=xgi.simplicial_edit_distance(H,ms,ex,normalize=False); b=brute_sed(H,ms,ex)
            if not ((isinstance(a,float) and math.isnan(a) and math.isnan(b)) or a==b):
                bad+=1
                if bad<5: print("SED mismatch",H.edges.members(),ms,ex,a,b)
            for f in (xgi.edit_simpliciality, xgi.face_edit_simpliciality, xgi.simplicial_fraction):
                v=f(H,ms,ex)
                if not (math.isnan(v) or -1e-12<=v<=1+1e-12):
                    print("range",f.__name__,H.edges.members(),ms,ex,v)
print("C15 tot",tot,"bad",bad)
# C14: components, shortest path, clustering
bad=0
for it in range(2000):
    H=rand_h(6,5,4)
    G=nx.Graph(); G.add_nodes_from(H.nodes)
    for e in H.edges.members():
        for u,v in itertools.combinations(e,2): G.add_edge(u,v)
    cc={frozenset(c) for c in xgi.connected_components(H)}
    if cc!={frozenset(c) for c in nx.connected_components(G)}: bad+=1; print("cc",H.edges.members())
    for s in H.nodes:
        d=xgi.single_source_shortest_path_length(H,s); d2=nx.single_source_shortest_path_length(G,s)
        for t in H.nodes:
            if (d[t]==np.inf)!=(t not in d2) or (t in d2 and d[t]!=d2[t]): bad+=1; print("sp",H.edges.members(),s,t,d[t],d2.get(t)); break
    c=xgi.clustering_coefficient(H); c2=nx.clustering(G)
    if any(abs(c[n]-c2[n])>1e-9 for n in H.nodes): bad+=1; print("clust",H.edges.members(),c,c2)
    P=xgi.to_graph(H)
    if set(P.nodes)!=set(G.nodes) or {frozenset(e) for e in P.edges}!={frozenset(e) for e in G.edges}: bad+=1; print("proj", H.edges.members(), P.edges, G.edges)
print("C14 bad",bad)
