import warnings
warnings.simplefilter("ignore")
import xgi, inspect, collections
fn = {}
for n,f in vars(xgi).items():
    if n.startswith("_") or inspect.ismodule(f) or inspect.isclass(f) or not callable(f): continue
    try: sig = inspect.signature(f)
    except Exception as e: print("nosig", n); continue
    ps = list(sig.parameters)
    fn[n] = ps
byfirst = collections.defaultdict(list)
for n,ps in fn.items(): byfirst[ps[0] if ps else None].append(n)
for k,v in sorted(byfirst.items(), key=lambda kv: str(kv[0])): print(k, len(v), v)
print(len(fn))
for cls in (xgi.Hypergraph, xgi.DiHypergraph, xgi.SimplicialComplex):
    print(cls.__name__, [m for m in dir(cls) if not m.startswith("_")])
print([m for m in dir(xgi.core.views.NodeView) if not m.startswith("_")])
print([m for m in dir(xgi.core.views.EdgeView) if not m.startswith("_")])
print([m for m in dir(xgi.core.views.DiNodeView) if not m.startswith("_")])
print([m for m in dir(xgi.core.views.DiEdgeView) if not m.startswith("_")])
